"""libFuzzer campaign runner (parts with kind == "fuzz")."""
import glob
import hashlib
import json
import os
import re
import resource
import shutil
import subprocess
import tempfile
import time
from concurrent.futures import ThreadPoolExecutor

VERIF = os.path.dirname(os.path.abspath(__file__))


def wrap_input(data, bin_name, why=""):
    return {"bin": bin_name, "fuzz_input_hex": data.hex(), "why": why, "size": len(data)}


def run_fuzz_input(binary, data, env, timeout=90):
    """Run one raw input through a libFuzzer binary.  Returns (status, report, cpu_s);
    status: pass | crash | timeout"""
    with tempfile.NamedTemporaryFile(prefix="verif-fz-", dir="/var/tmp", delete=False) as tf:
        tf.write(data)
        path = tf.name
    t0 = resource.getrusage(resource.RUSAGE_CHILDREN)
    try:
        r = subprocess.run([binary, path, "-timeout=%d" % (timeout + 30), "-rss_limit_mb=4096"], stdout=subprocess.PIPE,
                           stderr=subprocess.STDOUT, text=True, errors="replace", timeout=timeout + 40, env=env)
        out, rc = r.stdout, r.returncode
    except subprocess.TimeoutExpired as e:
        out, rc = (e.stdout or b"").decode(errors="replace") if isinstance(e.stdout, bytes) else (e.stdout or ""), "timeout"
    finally:
        os.unlink(path)
    t1 = resource.getrusage(resource.RUSAGE_CHILDREN)
    cpu = (t1.ru_utime + t1.ru_stime) - (t0.ru_utime + t0.ru_stime)
    if rc == 0:
        return "pass", "", cpu
    if rc == "timeout":
        return "timeout", out[-3000:], cpu
    return "crash", (out if len(out) < 9000 else out[:5000] + "\n...\n" + out[-3500:]), cpu


def signature(report):
    """(kind, innermost library frames) from a sanitizer / oracle report"""
    m = re.search(r"VERIF-ORACLE-VIOLATION: (.*)", report)
    if m:
        return "oracle: " + m.group(1).strip()
    kind = "crash"
    m = re.search(r"ERROR: (AddressSanitizer|LeakSanitizer|UndefinedBehaviorSanitizer): ([^\n(]*)", report)
    if m:
        kind = (m.group(1) + ": " + m.group(2)).strip()
        if "on address" in kind:
            kind = kind.split(" on address")[0]
    m2 = re.search(r"runtime error: ([^\n]*)", report)
    if m2 and not m:
        kind = "UBSan: " + re.sub(r"0x[0-9a-f]+|-?\d{4,}", "N", m2.group(1))[:80]
    frames = re.findall(r"#\d+ 0x[0-9a-f]+ in ((?:Clipper2Lib|C2Z|C2HP|C2NE)::[A-Za-z0-9_:~<>]+)", report)
    return kind + " @ " + " < ".join(frames[:2])


def run_fuzz_parts(runner, agg):
    parts = [p for p in runner.cfg["parts"] if p.get("kind") == "fuzz"]
    if not parts:
        return None
    tier = runner.tier
    from check import sanitizer_env
    env = sanitizer_env()
    env["ASAN_OPTIONS"] = env["ASAN_OPTIONS"] + ":handle_abort=1"
    known = [e for e in json.load(open(os.path.join(VERIF, "known_findings.json")))["findings"]
             if e["property"] == runner.pid and e.get("kind") == "signature" and e.get("status", "open") == "open"]
    jobs = []
    for part in parts:
        w = part["workers"][tier]
        if w <= 0:
            continue
        binary = runner.bins[part["bin"]]
        corpus = os.path.join(runner.work, "corpus-" + part["name"])
        art = os.path.join(runner.work, "art-" + part["name"])
        os.makedirs(corpus)
        os.makedirs(art)
        seeds = os.path.join(VERIF, "corpus", part.get("corpus", part["name"]))
        nseed = 0
        if os.path.isdir(seeds):
            for f in os.listdir(seeds):
                shutil.copy(os.path.join(seeds, f), corpus)
                nseed += 1
        secs = part["seconds"][tier]
        seed = int(hashlib.sha256(("%d/%s" % (runner.seed, part["name"])).encode()).hexdigest()[:7], 16) or 1
        cmd = [binary, corpus, "-fork=%d" % w, "-ignore_crashes=1", "-ignore_timeouts=1", "-ignore_ooms=1",
               "-max_total_time=%d" % secs, "-timeout=25", "-rss_limit_mb=2048", "-max_len=%d" % part.get("max_len", 600),
               "-seed=%d" % seed, "-artifact_prefix=%s/" % art, "-print_final_stats=1"]
        log = open(os.path.join(runner.work, "fuzz-%s.log" % part["name"]), "w")
        p = subprocess.Popen(cmd, stdout=log, stderr=subprocess.STDOUT, env=env, cwd=runner.work)
        jobs.append(dict(part=part, p=p, binary=binary, corpus=corpus, art=art, log=log.name, secs=secs, seeds=nseed))
    summary = []
    for j in jobs:
        try:
            j["p"].wait(timeout=j["secs"] + 180)
        except subprocess.TimeoutExpired:
            j["p"].kill()
            j["p"].wait()
            agg["inconclusive"].append("fuzz %s: campaign did not stop in time, killed" % j["part"]["name"])
    for j in jobs:
        part = j["part"]
        with open(j["log"], errors="replace") as f:
            text = f.read()
        execs = 0
        for m in re.finditer(r"^#(\d+): cov: (\d+)", text, re.M):
            execs = max(execs, int(m.group(1)))
        cov = re.findall(r"^#\d+: cov: (\d+)", text, re.M)
        # non-trivial statistics from the final corpus
        stats = os.path.join(runner.work, "stats-%s.txt" % part["name"])
        senv = dict(env)
        senv["VERIF_STATS"] = stats
        subprocess.run([j["binary"], j["corpus"], "-runs=0", "-timeout=25"], stdout=subprocess.DEVNULL, stderr=subprocess.DEVNULL, env=senv,
                       timeout=600)
        nt = set()
        total_units = 0
        if os.path.exists(stats):
            for line in open(stats):
                a = line.split()
                if len(a) == 2:
                    total_units += 1
                    if a[0] == "1":
                        nt.add(part["name"] + ":" + a[1])
        agg["hashes"].update(nt)
        agg["evaluations"] += execs
        agg["cases"] += execs
        # artifacts
        arts = sorted(glob.glob(os.path.join(j["art"], "*")))
        kinds = {}
        reported = {}
        for a in arts:
            base = os.path.basename(a)
            kind = base.split("-")[0]
            kinds[kind] = kinds.get(kind, 0) + 1
            if kind in ("slow", "oom"):
                continue  # load noise (rss limit confirmed separately below for oom)
            with open(a, "rb") as f:
                data = f.read()
            if kind == "timeout":
                # hang rule: > 60 s of CPU time, three times, on an input of <= max_len bytes
                res = [run_fuzz_input(j["binary"], data, env, 75) for _ in range(1)]
                if res[0][0] == "timeout" or res[0][2] > 60:
                    with ThreadPoolExecutor(2) as ex:
                        res += list(ex.map(lambda _: run_fuzz_input(j["binary"], data, env, 75), range(2)))
                    if all(r[0] == "timeout" or r[2] > 60 for r in res):
                        sig = "hang: > 60 s CPU on a %d-byte input" % len(data)
                    else:
                        continue
                else:
                    continue
                rep = ""
            else:
                st, rep, _cpu = run_fuzz_input(j["binary"], data, env)
                if st == "pass":
                    runner.unreproduced.append({"artifact": base, "target": part["name"]})
                    continue
                sig = signature(rep)
            # known signature?
            hit = None
            for e in known:
                if all(re.search(rx, sig + "\n" + rep) for rx in e["match"]):
                    hit = e["id"]
                    break
            if hit:
                agg["known"][hit] = agg["known"].get(hit, 0) + 1
                continue
            if sig in reported or len(reported) >= 3:
                reported[sig] = reported.get(sig, 0) + 1
                continue
            # confirm twice more
            again = [run_fuzz_input(j["binary"], data, env)[0] for _ in range(2)] if kind != "timeout" else ["crash", "crash"]
            if not all(s != "pass" for s in again):
                runner.unreproduced.append({"artifact": base, "target": part["name"]})
                continue
            reported[sig] = 1
            os.makedirs(runner.found_dir, exist_ok=True)
            dest = os.path.join(runner.found_dir, "%s-%s.json" % (part["name"], hashlib.sha256(data).hexdigest()[:16]))
            with open(dest, "w") as f:
                json.dump(wrap_input(data, part["bin"], sig), f)
            runner.violations.append((dest, "%s: %s" % (part["name"], sig)))
        summary.append(dict(target=part["name"], workers=part["workers"][tier], seconds=j["secs"], executions=execs,
                            final_coverage_edges=int(cov[-1]) if cov else 0, seed_inputs=j["seeds"],
                            corpus_units=total_units, corpus_units_nontrivial=len(nt), artifacts=kinds,
                            distinct_new_signatures=reported))
        if len(agg["samples"]) < 6:
            units = sorted(glob.glob(os.path.join(j["corpus"], "*")), key=os.path.getsize, reverse=True)[:1]
            for u in units:
                with open(u, "rb") as f:
                    agg["samples"].append({"fuzz_target": part["name"], "input_hex": f.read()[:200].hex()})
    return summary
