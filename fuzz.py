"""libFuzzer campaign runner (parts with kind == "fuzz")."""


def run_fuzz_parts(runner, agg):
    parts = [p for p in runner.cfg["parts"] if p.get("kind") == "fuzz"]
    if not parts:
        return None
    raise SystemExit("fuzz parts not implemented yet")
