#!/usr/bin/env python3
"""Regenerates MANIFEST.json from props.py (single source of truth) and validates it."""
import json
import os
import sys

VERIF = os.path.dirname(os.path.abspath(__file__))
sys.path.insert(0, VERIF)
from props import PROPS, NOT_YET  # noqa: E402

ALL = ["C%02d" % k for k in range(1, 21)]
checks = []
for pid in ALL:
    if pid not in PROPS:
        continue
    c = PROPS[pid]
    checks.append(dict(
        property_id=pid,
        quick_cmd="python3 check.py %s quick" % pid,
        thorough_cmd="python3 check.py %s thorough" % pid,
        evidence_file="/verif/evidence/%s.json" % pid,
        replay_cmd_template="python3 check.py %s quick --replay {path}" % pid,
        engine=c.get("engine", "rapidcheck"),
        level_claimed=dict(category=c.get("level", "exploration"), text=c["level_text"], design_ref=c.get("design_ref", "DESIGN.md section 5, " + pid)),
        level_note=c["level_note"],
        technique=c["technique"],
    ))
m = dict(
    version=1,
    setup_cmd="python3 build.py",
    hooks=dict(guard="CLIPPER2_VERIF", enable="every harness build passes -DCLIPPER2_VERIF (build.py COMMON flags); no hook is currently present in /repo",
               baseline_off_cmd="cmake --build /repo/_build && ctest --test-dir /repo/_build -j8 --timeout 900",
               source_commits=[], add_only=True),
    engines=[
        dict(name="rapidcheck", path="/verif/harness/common.hpp", serves_properties=[p for p in ALL if p in PROPS],
             kind_free_text="property-based testing: rapidcheck generators + shrinking, one harness binary per property, driven by check.py with derived seeds"),
        dict(name="libFuzzer", path="/verif/harness/fuzz_targets.cpp", serves_properties=["C10", "C11", "C03"],
             kind_free_text="coverage-guided fuzzing (clang -fsanitize=fuzzer,address,undefined) of five structure-aware targets in plain / USINGZ / large-magnitude builds, run by fuzz.py in fork mode; oracles for Execute success (C11) and structural validity (C03) sit inside the targets; registered under C10"),
        dict(name="allocation-failure injector", path="/verif/harness/prop_C10.cpp", serves_properties=["C10"],
             kind_free_text="replaced global operator new family with a countdown: every allocation point of each generated operation is failed once (fault enumeration)"),
        dict(name="ThreadSanitizer workloads", path="/verif/harness/prop_C14.cpp", serves_properties=["C14"],
             kind_free_text="rapidcheck-generated multi-threaded workloads built with clang -fsanitize=thread"),
    ],
    checks=checks,
    not_applicable=[dict(property_id=p, reason=NOT_YET.get(p, "check not built yet in this revision")) for p in ALL if p not in PROPS],
    notes="All checks: python3 check.py <ID> <quick|thorough>; VERIF_SEED selects the seed; known findings in known_findings.json; see DESIGN.md.",
)
with open(os.path.join(VERIF, "MANIFEST.json"), "w") as f:
    json.dump(m, f, indent=1)
try:
    import jsonschema
    jsonschema.validate(m, json.load(open("/root/.vp/MANIFEST.schema.json")))
    print("MANIFEST.json valid,", len(checks), "checks")
except ImportError:
    print("MANIFEST.json written (jsonschema not importable with this interpreter; run with python3-vt to validate)")
