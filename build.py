#!/usr/bin/env python3
"""Content-hash keyed builder for Clipper2 library variants and harness binaries.

Everything is rebuilt from the *current working tree* of $VERIF_REPO (default
/repo): the cache key of every artefact contains the sha256 of every file under
CPP/Clipper2Lib, so an edited source tree can never be served a stale binary.
"""
import fcntl
import hashlib
import os
import shutil
import subprocess
import sys
import time
from concurrent.futures import ThreadPoolExecutor

VERIF = os.path.dirname(os.path.abspath(__file__))
REPO = os.environ.get("VERIF_REPO", "/repo")
LIBDIR = os.path.join(REPO, "CPP", "Clipper2Lib")
BUILD = os.environ.get("VERIF_BUILD", os.path.join(VERIF, "build"))
HARNESS = os.path.join(VERIF, "harness")
GUARD = "CLIPPER2_VERIF"

LIB_SOURCES = ["clipper.engine.cpp", "clipper.offset.cpp", "clipper.rectclip.cpp"]

SAN = ["-fsanitize=address,undefined", "-fno-sanitize-recover=undefined",
       "-fno-omit-frame-pointer", "-D_GLIBCXX_ASSERTIONS"]
# for coordinates above 2^29 the property does not promise overflow-free
# arithmetic, so these two UBSan groups are switched off in the "big" builds
SAN_BIG = SAN + ["-fno-sanitize=signed-integer-overflow,float-cast-overflow"]

TOOLCHAINS = {
    # name: (compiler, base flags)
    "gcc": ("g++", ["-O2", "-g0"]),
    "gccdbg": ("g++", ["-O1", "-g", "-D_GLIBCXX_ASSERTIONS"]),
    "asan": ("clang++", ["-O1", "-g"] + SAN),
    "asanbig": ("clang++", ["-O1", "-g"] + SAN_BIG),
    "fuzz": ("clang++", ["-O1", "-g", "-D_GLIBCXX_SANITIZE_VECTOR"] + SAN),
    "fuzzbig": ("clang++", ["-O1", "-g", "-D_GLIBCXX_SANITIZE_VECTOR"] + SAN_BIG),
    "tsan": ("clang++", ["-O1", "-g", "-fsanitize=thread"]),
}
# extra compile flag for library objects in fuzz toolchains / link flag for the binary
TC_LIB_EXTRA = {"fuzz": ["-fsanitize=fuzzer-no-link"], "fuzzbig": ["-fsanitize=fuzzer-no-link"]}
TC_LINK_EXTRA = {"fuzz": ["-fsanitize=fuzzer"], "fuzzbig": ["-fsanitize=fuzzer"]}

VARIANTS = {
    # name: (flags, namespace)
    "plain": ([], "Clipper2Lib"),
    "hp": (["-DCLIPPER2_HI_PRECISION=1", "-DClipper2Lib=C2HP"], "C2HP"),
    "z": (["-DUSINGZ", "-DClipper2Lib=C2Z"], "C2Z"),
    "ne": (["-fno-exceptions", "-DClipper2Lib=C2NE"], "C2NE"),
}

COMMON = ["-std=gnu++17", "-D" + GUARD, "-I" + os.path.join(LIBDIR, "include"),
          "-I" + HARNESS, "-Wno-unused-function"]


def _sha(*parts):
    h = hashlib.sha256()
    for p in parts:
        if isinstance(p, str):
            p = p.encode()
        h.update(p)
        h.update(b"\0")
    return h.hexdigest()[:20]


_tree_hash_cache = {}


def tree_hash(root=LIBDIR):
    if root in _tree_hash_cache:
        return _tree_hash_cache[root]
    h = hashlib.sha256()
    for d, dirs, files in sorted(os.walk(root)):
        dirs.sort()
        for f in sorted(files):
            p = os.path.join(d, f)
            h.update(os.path.relpath(p, root).encode())
            with open(p, "rb") as fh:
                h.update(fh.read())
    _tree_hash_cache[root] = h.hexdigest()[:20]
    return _tree_hash_cache[root]


def harness_hash(files):
    h = hashlib.sha256()
    # all headers always participate (cheap, and avoids dependency tracking)
    names = sorted(f for f in os.listdir(HARNESS) if f.endswith((".hpp", ".h")))
    for f in names + sorted(files):
        with open(os.path.join(HARNESS, f), "rb") as fh:
            h.update(f.encode())
            h.update(fh.read())
    return h.hexdigest()[:20]


def _run(cmd, log):
    t = time.time()
    r = subprocess.run(cmd, stdout=subprocess.PIPE, stderr=subprocess.STDOUT, text=True)
    log.append("%6.1fs %s" % (time.time() - t, " ".join(cmd[:1] + cmd[-3:])))
    if r.returncode != 0:
        sys.stderr.write("BUILD FAILED: %s\n%s\n" % (" ".join(cmd), r.stdout[-6000:]))
        raise SystemExit(3)


class Lock:
    def __init__(self, name):
        os.makedirs(BUILD, exist_ok=True)
        self.path = os.path.join(BUILD, name + ".lock")

    def __enter__(self):
        self.fh = open(self.path, "w")
        fcntl.flock(self.fh, fcntl.LOCK_EX)
        return self

    def __exit__(self, *a):
        fcntl.flock(self.fh, fcntl.LOCK_UN)
        self.fh.close()


def _prune(prefix_dir, keep_name_prefix, keep):
    """Keep the cache bounded: for artefacts named <prefix>-<key>, drop all but
    the most recently used `keep`."""
    try:
        ents = [e for e in os.listdir(prefix_dir) if e.startswith(keep_name_prefix + "-")]
    except FileNotFoundError:
        return
    ents.sort(key=lambda e: os.path.getmtime(os.path.join(prefix_dir, e)), reverse=True)
    for e in ents[keep:]:
        p = os.path.join(prefix_dir, e)
        shutil.rmtree(p, ignore_errors=True) if os.path.isdir(p) else os.remove(p)


def build_lib(tc, variant, log):
    """Returns list of object files for library variant under toolchain tc."""
    cxx, tflags = TOOLCHAINS[tc]
    vflags, _ns = VARIANTS[variant]
    flags = COMMON + tflags + TC_LIB_EXTRA.get(tc, []) + vflags
    key = _sha(tree_hash(), tc, variant, " ".join(flags))
    name = "%s-%s" % (tc, variant)
    outdir = os.path.join(BUILD, "lib", "%s-%s" % (name, key))
    objs = [os.path.join(outdir, s.replace(".cpp", ".o")) for s in LIB_SOURCES]
    with Lock("lib-" + name):
        if all(os.path.exists(o) for o in objs) and os.path.exists(os.path.join(outdir, "ok")):
            os.utime(outdir)
            return objs
        os.makedirs(outdir, exist_ok=True)
        with ThreadPoolExecutor(3) as ex:
            futs = [ex.submit(_run, [cxx] + flags + ["-c", os.path.join(LIBDIR, "src", s), "-o", o], log)
                    for s, o in zip(LIB_SOURCES, objs)]
            for f in futs:
                f.result()
        open(os.path.join(outdir, "ok"), "w").close()
        _prune(os.path.join(BUILD, "lib"), name, 3)
    return objs


def build_obj(tc, src, extra_flags, tag, log):
    """Compile one harness source to an object (keyed by tree + harness hash)."""
    cxx, tflags = TOOLCHAINS[tc]
    flags = COMMON + tflags + TC_LIB_EXTRA.get(tc, []) + extra_flags
    key = _sha(tree_hash(), harness_hash([src]), tc, " ".join(flags))
    name = "%s-%s-%s" % (tc, os.path.splitext(src)[0], tag)
    out = os.path.join(BUILD, "obj", "%s-%s.o" % (name, key))
    with Lock("obj-" + name):
        if os.path.exists(out):
            os.utime(out)
            return out
        os.makedirs(os.path.dirname(out), exist_ok=True)
        tmp = out + ".tmp%d" % os.getpid()
        _run([cxx] + flags + ["-c", os.path.join(HARNESS, src), "-o", tmp], log)
        os.rename(tmp, out)
        _prune(os.path.join(BUILD, "obj"), name, 3)
    return out


def build_bin(name, tc, main_src, variants=("plain",), shims=(), extra_srcs=(), main_flags=(),
              libs=("-lrapidcheck", "-lpthread"), log=None):
    """Build harness binary.
    variants: library variants linked in.  The main TU is compiled against the
              FIRST variant's flags (normally 'plain').
    shims:    variants for which harness/shim.cpp is compiled (namespace-neutral API).
    """
    log = log if log is not None else []
    cxx, tflags = TOOLCHAINS[tc]
    with ThreadPoolExecutor(8) as ex:
        lib_f = [ex.submit(build_lib, tc, v, log) for v in variants]
        mflags = list(VARIANTS[variants[0]][0]) + list(main_flags)
        main_f = ex.submit(build_obj, tc, main_src, mflags, "main", log)
        shim_f = [ex.submit(build_obj, tc, "shim.cpp", list(VARIANTS[v][0]) + ["-DSHIM_NS=shim_" + v], v, log)
                  for v in shims]
        extra_f = [ex.submit(build_obj, tc, s, mflags, "x", log) for s in extra_srcs]
        objs = [main_f.result()] + [f.result() for f in shim_f] + [f.result() for f in extra_f]
        for f in lib_f:
            objs += f.result()
    key = _sha(*objs, tc, " ".join(libs))
    out = os.path.join(BUILD, "bin", "%s-%s" % (name, key))
    with Lock("bin-" + name):
        if os.path.exists(out):
            os.utime(out)
            return out
        os.makedirs(os.path.dirname(out), exist_ok=True)
        tmp = out + ".tmp%d" % os.getpid()
        link_flags = [f for f in tflags if f.startswith("-fsanitize") or f.startswith("-fno-sanitize")]
        _run([cxx] + link_flags + TC_LINK_EXTRA.get(tc, []) + objs + list(libs) + ["-o", tmp], log)
        os.rename(tmp, out)
        _prune(os.path.join(BUILD, "bin"), name, 3)
    return out


if __name__ == "__main__":
    # warm the commonly used library variants (setup_cmd)
    log = []
    t = time.time()
    with ThreadPoolExecutor(4) as ex:
        list(ex.map(lambda a: build_lib(a[0], a[1], log),
                    [("gcc", "plain"), ("gcc", "hp"), ("gcc", "z"), ("asan", "plain"), ("asan", "z")]))
    print("libraries built in %.1fs" % (time.time() - t))
