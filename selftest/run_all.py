#!/usr/bin/env python3
"""Runs every mutant in selftest/mutants/ (name: <PROP>_<what>.sed|.diff) and every stored seeded change against the
quick check of its property (on a scratch copy of /repo) and writes selftest/results.json.  Development tool."""
import json, os, subprocess, sys, time, glob
here = os.path.dirname(os.path.abspath(__file__))
verif = os.path.dirname(here)
only = sys.argv[1:]
jobs = []
for f in sorted(os.listdir(os.path.join(here, "mutants"))):
    prop = f.split("_")[0]
    jobs.append((f, prop, os.path.join(here, "mutants", f)))
for d in sorted(glob.glob(os.path.join(verif, "seeded", "*"))):
    name = os.path.basename(d)
    jobs.append(("seeded/" + name, name.split("-")[0], os.path.join(d, "patch.diff")))
res = []
old = []
if only and os.path.exists(os.path.join(here, "results.json")):
    old = json.load(open(os.path.join(here, "results.json")))   # partial run: merge into the stored results
for name, prop, path in jobs:
    if only and prop not in only and name not in only:
        continue
    if path.endswith("patch.diff"):
        # mutrun needs a .diff/.patch suffix: fine
        pass
    t = time.time()
    r = subprocess.run([os.path.join(here, "mutrun.sh"), path, prop, "quick"], capture_output=True, text=True, timeout=3600)
    out = r.stdout + r.stderr
    viol = [l for l in out.splitlines() if l.startswith("VIOLATION")]
    noop = "MUTANT IS A NO-OP" in out
    res.append(dict(mutant=name, property=prop, detected=bool(viol), noop=noop, seconds=round(time.time() - t, 1),
                    first=(viol[0][:300] if viol else "")))
    print("%-45s %-4s %s %5.0fs" % (name, prop, "NO-OP" if noop else ("DETECTED" if viol else "missed"), time.time() - t), flush=True)
    names = {r["mutant"] for r in res}
    merged = [r for r in old if r["mutant"] not in names] + res
    merged.sort(key=lambda r: (r["mutant"].startswith("seeded/"), r["mutant"]))
    json.dump(merged, open(os.path.join(here, "results.json"), "w"), indent=1)
