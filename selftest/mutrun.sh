#!/bin/bash
# usage: mutrun.sh <patch-or-sed-script> <PROP> [tier]   — run a check against a mutated copy of /repo
# A .diff/.patch argument is applied with `git apply`-style patch -p1; anything else is a sed script file
# applied to all three library sources + headers.
set -e
M=$(readlink -f $1); P=$2; T=${3:-quick}
D=$(mktemp -d /tmp/mut.XXXXXX)
mkdir -p $D/repo/CPP && cp -r /repo/CPP/Clipper2Lib $D/repo/CPP/
if [[ "$M" == *.diff || "$M" == *.patch ]]; then (cd $D/repo && patch -s -p1 < "$M"); else
  sed -i -f "$M" $D/repo/CPP/Clipper2Lib/src/*.cpp $D/repo/CPP/Clipper2Lib/include/clipper2/*.h; fi
if diff -rq /repo/CPP/Clipper2Lib $D/repo/CPP/Clipper2Lib >/dev/null; then echo "MUTANT IS A NO-OP"; rm -rf $D; exit 2; fi
set +e
VERIF_REPO=$D/repo VERIF_OUT=$D/out VERIF_SEED=${VERIF_SEED:-1} python3 /verif/check.py $P $T; rc=$?
echo "exit=$rc"
rm -rf $D
exit $rc
