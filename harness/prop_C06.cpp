// C06 — polygon offsetting moves the boundary by delta.
#include "offset_oracle.hpp"

namespace {

const JoinType JTS[] = {JoinType::Square, JoinType::Bevel, JoinType::Round, JoinType::Miter};

struct Ctx {
  const Paths64* poly;
  std::vector<O::Seg> segs;
  bool outerPositive;
  std::vector<Point64> pts;
  std::vector<ld> d;          // signed distance of each sample
  std::vector<char> inR;
};

// is p inside a rectangle swept by some edge along its outward (dir=+1) / inward (dir=-1) normal by `width`,
// with its projection at least `trim` inside the edge ends?
bool inSwept(const Ctx& cx, const Point64& p, int dir, ld width, ld trim) {
  if (width <= 0) return false;
  for (auto& s : cx.segs) {
    ld dx = (ld)s.b.x - s.a.x, dy = (ld)s.b.y - s.a.y, len = hypotl(dx, dy);
    ld px = (ld)p.x - s.a.x, py = (ld)p.y - s.a.y;
    ld t = (px * dx + py * dy) / len;          // along the edge
    if (t < trim || t > len - trim) continue;
    // interior is on the left of a directed edge for the positive convention, on the right for the negative one
    ld left = (dx * py - dy * px) / len;       // > 0: p on the left
    ld outward = cx.outerPositive ? -left : left;
    ld sd = dir > 0 ? outward : -outward;
    if (sd >= 0 && sd <= width) return true;
  }
  return false;
}

// expectation for one sample: +1 must be covered, 0 must not be covered, -1 not judged (in the band)
int expect(const Ctx& cx, size_t k, double delta, JoinType jt, double ml, double at) {
  double ad = std::fabs(delta);
  ld d = cx.d[k];
  if (ad < 0.5) {  // region unchanged
    if (fabsl(d) <= 2.0L) return -1;
    return d < 0 ? 1 : 0;
  }
  ld tol = OFS::tolOf(at, ad);
  ld kf = OFS::joinFactor(jt, ml);
  if (jt == JoinType::Round) {
    if (d <= delta - tol) return 1;
    if (d >= delta + tol) return 0;
    return -1;
  }
  if (jt == JoinType::Bevel) {
    if (delta > 0) {
      if (d >= delta + tol) return 0;
      if (d <= std::min<ld>(0, delta - tol)) return 1;
      if (inSwept(cx, cx.pts[k], +1, ad - tol, tol)) return 1;
      return -1;
    } else {
      if (d <= -(ld)ad - tol) return 1;
      if (d >= tol) return 0;                                          // clearly outside the input region
      if (d >= -(ld)ad + tol && inSwept(cx, cx.pts[k], -1, ad - tol, tol)) return 0;
      return -1;
    }
  }
  // Miter / Square: between the round results for |delta| and k*|delta|
  if (delta > 0) {
    if (d <= delta - tol) return 1;
    if (d >= kf * delta + tol) return 0;
    return -1;
  }
  if (d <= -kf * ad - tol) return 1;
  if (d >= -(ld)ad + tol) return 0;
  return -1;
}

// route by which the offset is obtained (chosen per case): 0 Execute(delta, Paths64&) on a fresh object, 1 Execute into a
// PolyTree64 (flattened), 2 one object executed into a tree first and into paths afterwards, 3 the InflatePaths function
int g_route = 0;
Paths64 offset(const Paths64& poly, double delta, JoinType jt, double ml, double at, bool rev) {
  if (g_route == 3 && !rev) return InflatePaths(poly, delta, jt, EndType::Polygon, ml, at);
  ClipperOffset co(ml, at, false, rev);
  co.AddPaths(poly, jt, EndType::Polygon);
  Paths64 sol;
  if (g_route == 1 || g_route == 2) {
    PolyTree64 tree;
    co.Execute(delta, tree);
    if (g_route == 1) return PolyTreeToPaths64(tree);
  }
  co.Execute(delta, sol);
  return sol;
}

Verdict judge(const Case& c) {
  Verdict v;
  g_route = (int)c.I("route", 0);
  ST.count("route_" + std::to_string(g_route));
  const Paths64& poly = c.P("poly");
  if (poly.empty() || c.P("samples").empty()) { v.discard = true; return v; }
  if (!OFS::validSimple(poly, 10.0)) { v.discard = true; ST.count("discard_not_simple_or_too_sharp"); return v; }
  if (O::maxAbs(poly) > (int64_t(1) << 40)) { v.discard = true; return v; }
  Ctx cx;
  cx.poly = &poly;
  cx.segs = O::segsOf(poly);
  // orientation convention from the lowest... simply: sign of the total area (outer rings dominate)
  cx.outerPositive = O::area2(poly) > 0;
  // nesting must alternate properly: check winding is 0/1 (or 0/-1) at all samples
  cx.pts = c.P("samples")[0];
  int wantW = cx.outerPositive ? 1 : -1;
  for (auto& p : cx.pts) {
    O::Wn w = O::winding(p, poly);
    if (w.w != 0 && w.w != wantW) { v.discard = true; ST.count("discard_not_polygon_with_holes"); return v; }
    cx.inR.push_back(w.w != 0);
    cx.d.push_back(OFS::signedDist(p, poly, cx.segs));
  }
  double ad = std::fabs(c.D("delta")), ml = c.D("ml", 2.0), at = c.D("at", 0.0);
  bool rev = c.I("rev") != 0;
  int sign = (cx.outerPositive ? 1 : -1) * (rev ? -1 : 1);
  bool concave = false;
  for (auto& p : poly) { size_t n = p.size(); for (size_t k = 0; k < n; ++k) { i128 cr = O::cross(p[(k + n - 1) % n], p[k], p[(k + 1) % n]); if ((cr < 0) == cx.outerPositive && cr != 0) concave = true; } }
  bool sawIn = false, sawOut = false;

  for (JoinType jt : JTS)
    for (int sg = -1; sg <= 1; sg += 2) {
      double delta = sg * ad;
      Paths64 sol = offset(poly, delta, jt, ml, at, rev);
      v.evals++;
      std::string cfg = std::string(" [delta=") + std::to_string(delta) + "," + OFS::jtName(jt) + ",miter_limit=" + std::to_string(ml) + ",arc_tol=" + std::to_string(at) + ",rev=" + std::to_string((int)rev) + "]";
      for (size_t k = 0; k < cx.pts.size(); ++k) {
        int e = expect(cx, k, delta, jt, ml, at);
        if (e < 0) { ST.count("samples_in_band"); continue; }
        O::Wn w = O::winding(cx.pts[k], sol);
        int want = e ? sign : 0;
        if (e) sawIn = true; else sawOut = true;
        if (w.w == want && !w.on) continue;
        // mismatch: is it the isolated sub-grid near-touch artefact of the clean-up union (KF-ENG-a)?  A wrong sign,
        // factor, normal or lost hole is systematic in delta; the artefact disappears when delta moves a fraction of a unit.
        bool persists = ad < 2.0 || !OFS::isolatedInDelta(ad, 0.5, [&](double a2) {
          double d2 = sg * a2;
          int e2 = expect(cx, k, d2, jt, ml, at);
          if (e2 < 0) return -1;
          O::Wn w2 = O::winding(cx.pts[k], offset(poly, d2, jt, ml, at, rev));
          return (w2.w != (e2 ? sign : 0) || w2.on) ? 1 : 0;
        });
        if (!persists) { v.known = "KF-ENG-a"; ST.count("mismatch_vanishing_under_delta_perturbation"); continue; }
        char buf[160];
        snprintf(buf, sizeof buf, " signed distance to the input region %.3Lf", cx.d[k]);
        v.fail("sample " + O::ptStr(cx.pts[k]) + buf + ": solution winding " + std::to_string(w.w) + (w.on ? " (on boundary)" : "") + ", expected " + std::to_string(want) + cfg);
        return v;
      }
    }
  v.nontrivial = concave && sawIn && sawOut;
  ST.count("samples", cx.pts.size());
  if (poly.size() > 1) ST.count("with_holes_or_several_polygons");
  ST.count(ad < 0.5 ? "delta_lt_0.5" : ad < 5 ? "delta_0.5..5" : "delta_ge_5");
  return v;
}

Case gen() {
  Case c;
  double R = G::oneOf(std::vector<double>{100, 1000, 1000, 1e5, 1e7});
  bool huge = G::chance(8);
  if (huge) { R = G::oneOf(std::vector<double>{3e9, 2e10, 1e11}); ST.count("huge_polygon_extent_3e9_to_1e11"); }   // products of extents beyond 2^63
  bool outerPositive = G::coin();
  Paths64 poly = OFS::polyWithHoles(R, outerPositive);
  if (G::chance(2)) {
    // large: one ring of 80-250 vertices (offset outlines and unions with hundreds of vertices: size-dependent behaviour)
    R = 1e5;
    poly = {GEN::ring((int)G::range(80, 250), G::sym(1000), G::sym(1000), 0.995 * R, R, outerPositive)};
    ST.count(OFS::validSimple(poly, 10.0) ? "large_ring_in_domain" : "large_ring_discarded");
  }
  bool rectShape = G::chance(8);
  int64_t rw = 0, rh = 0;
  if (rectShape) {
    // rectilinear shapes (exact 90-degree turns): a rectangle / square, or a frame (rectangle with a rectangular hole);
    // deltas include exactly half the width (shrinking to nothing) and miter limits exactly at sqrt(2), the 90-degree boundary
    rw = G::range(8, (int64_t)R); rh = G::coin() ? rw : G::range(8, (int64_t)R);
    int64_t x0 = G::sym((int64_t)R), y0 = G::sym((int64_t)R);
    if (G::chance(30)) { x0 = (int64_t(1) << 40) - rw - 1; y0 = -(int64_t(1) << 40) + 1; }   // at the top of the allowed magnitude
    Path64 outer = {Point64(x0, y0), Point64(x0 + rw, y0), Point64(x0 + rw, y0 + rh), Point64(x0, y0 + rh)};
    if (!outerPositive) std::reverse(outer.begin(), outer.end());
    poly = {outer};
    if (rw >= 40 && rh >= 40 && G::coin()) {
      int64_t bx = rw / 4, by = rh / 4;
      Path64 hole = {Point64(x0 + bx, y0 + by), Point64(x0 + bx, y0 + rh - by), Point64(x0 + rw - bx, y0 + rh - by), Point64(x0 + rw - bx, y0 + by)};
      if (!outerPositive) std::reverse(hole.begin(), hole.end());
      poly.push_back(hole);
    }
    ST.count("rectilinear_shape");
  }
  c.p["poly"] = poly;
  int cls = (int)G::range(0, 3);
  double ad = cls == 0 ? G::real(0.1, 0.49) : cls == 1 ? G::real(0.5, 5) : cls == 2 ? G::real(5, 0.3 * R) : G::real(0.3 * R, 2 * R);
  if (rectShape && G::coin()) { ad = G::oneOf(std::vector<double>{0.5, 1.0, (double)std::min(rw, rh) / 2.0, (double)std::min(rw, rh) / 2.0 + 0.5, (double)std::min(rw, rh) / 4.0, (double)std::max(rw, rh)}); }
  c.d["delta"] = ad;
  c.d["ml"] = G::chance(20) ? G::real(0.0, 1.0) : G::real(1.0, 5.0);
  if (G::chance(10)) c.d["ml"] = G::oneOf(std::vector<double>{1.0, 1.4142135623730951, 1.4142135623730949, 2.0, 100.0, 1e6});
  c.d["at"] = G::coin() ? 0.0 : G::real(0.05, 3.0);
  if (huge && c.d["at"] > 0) c.d["at"] = ad * G::real(0.001, 0.01);   // keeps the arcs at a few hundred steps
  if (!huge && G::chance(3) && R >= 1e5) {
    // an explicit arc tolerance that is tiny against a large delta (arcs of thousands of steps); a library that fell back
    // to its default tolerance here would leave a sag of 0.2% of delta, twice what the property allows
    c.d["at"] = G::oneOf(std::vector<double>{1e-9, 1e-6, 1e-4, 5e-4, 9.9e-4, 1e-3, 0.01});
    ad = G::real(3000.0, 30000.0);   // (the library caps an arc at pi*delta steps per turn: about 10^5 here)
    c.d["delta"] = ad;
    ST.count("tiny_arc_tolerance_large_delta");
  }
  c.i["rev"] = G::range(0, 1);
  c.i["route"] = G::chance(40) ? 0 : G::range(1, 3);
  double kf = std::max(c.d["ml"], std::sqrt(2.0));
  c.p["samples"] = {OFS::samplePoints(poly, true, ad, kf, OFS::tolOf(c.d["at"], ad), 12)};
  return c;
}

}  // namespace

int main(int argc, char** argv) {
  Harness H;
  H.property = "C06";
  H.parts.push_back({"poly", gen, judge, nullptr, true});
  return harnessMain(argc, argv, H);
}
