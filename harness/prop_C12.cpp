// C12 — results depend only on the current inputs, not on an object's history.
#include "gen.hpp"

namespace {

// ---------------------------------------------------------------------------
// Clipper64 / ClipperD: operation sequences against a fresh-object model
// ---------------------------------------------------------------------------
enum BOp { B_AddSubject, B_AddOpen, B_AddClip, B_AddReuse, B_PreserveCollinear, B_ReverseSolution, B_ExecPaths, B_ExecTree, B_Clear, B_NOPS };

struct Added { int kind; int idx; };  // kind: B_AddSubject/B_AddOpen/B_AddClip/B_AddReuse
struct Model { std::vector<Added> adds; bool pc = true, rev = false; };

typedef std::vector<std::pair<Path64, int>> FlatTree;
void flat(const PolyPath64& n, FlatTree& out) { for (size_t k = 0; k < n.Count(); ++k) { out.push_back({n[k]->Polygon(), (int)n[k]->Level()}); flat(*n[k], out); } }
typedef std::vector<std::pair<PathD, int>> FlatTreeD;
void flatD(const PolyPathD& n, FlatTreeD& out) { for (size_t k = 0; k < n.Count(); ++k) { out.push_back({n[k]->Polygon(), (int)n[k]->Level()}); flatD(*n[k], out); } }

struct Pools {
  std::vector<Paths64> pool;                       // closed / open path sets
  std::vector<ReuseableDataContainer64*> rdc;      // containers (built once, shared, read-only afterwards)
  std::vector<std::vector<std::pair<int, int>>> rdcContent;  // (pool idx, kind) in the order added
};

void applyAdds(Clipper64& c, const Model& m, const Pools& P, bool direct) {
  c.PreserveCollinear(m.pc);
  c.ReverseSolution(m.rev);
  for (auto& a : m.adds) {
    if (a.kind == B_AddSubject) c.AddSubject(P.pool[a.idx]);
    else if (a.kind == B_AddOpen) c.AddOpenSubject(P.pool[a.idx]);
    else if (a.kind == B_AddClip) c.AddClip(P.pool[a.idx]);
    else if (!direct) c.AddReuseableData(*P.rdc[a.idx]);
    else
      for (auto& pc : P.rdcContent[a.idx]) {
        if (pc.second == B_AddSubject) c.AddSubject(P.pool[pc.first]);
        else if (pc.second == B_AddOpen) c.AddOpenSubject(P.pool[pc.first]);
        else c.AddClip(P.pool[pc.first]);
      }
  }
}

Pools makePools(const Case& c) {
  Pools P;
  for (int k = 0; k < 4; ++k) P.pool.push_back(c.P("pool" + std::to_string(k)));
  for (int j = 0; j < 2; ++j) {
    P.rdc.push_back(new ReuseableDataContainer64());
    P.rdcContent.emplace_back();
    // container j holds pool[j] as subject and pool[j+2] as clip (and for j==1 pool[0] as open subject)
    P.rdc[j]->AddPaths(P.pool[j], PathType::Subject, false);
    P.rdcContent[j].push_back({j, B_AddSubject});
    P.rdc[j]->AddPaths(P.pool[j + 2], PathType::Clip, false);
    P.rdcContent[j].push_back({j + 2, B_AddClip});
    if (j == 1) { P.rdc[j]->AddPaths(P.pool[0], PathType::Subject, true); P.rdcContent[j].push_back({0, B_AddOpen}); }
  }
  return P;
}
void freePools(Pools& P) { for (auto* r : P.rdc) delete r; }

Verdict judgeSeq64(const Case& c) {
  Verdict v;
  if (c.seq.empty() || c.seq.size() > 40) { v.discard = true; return v; }
  Pools P = makePools(c);
  {
    Clipper64 used;
    Model m;
    used.PreserveCollinear(m.pc);
    used.ReverseSolution(m.rev);
    std::set<int> reuseAttached;
    int execs = 0;
    bool sawExecOrClear = false;
    size_t step = 0;
    for (auto& s : c.seq) {
      ++step;
      int op = (int)s.I("op"), idx = (int)(s.I("idx") & 3);
      if (op < 0 || op >= B_NOPS) continue;
      std::string at = " (step " + std::to_string(step) + " of " + std::to_string(c.seq.size()) + ")";
      switch (op) {
        case B_AddSubject: used.AddSubject(P.pool[idx]); m.adds.push_back({op, idx}); break;
        case B_AddOpen: used.AddOpenSubject(P.pool[idx]); m.adds.push_back({op, idx}); break;
        case B_AddClip: used.AddClip(P.pool[idx]); m.adds.push_back({op, idx}); break;
        case B_AddReuse: {
          int j = idx & 1;
          if (reuseAttached.count(j)) break;  // one container is attached to a clipper at most once between Clears
          used.AddReuseableData(*P.rdc[j]);
          reuseAttached.insert(j);
          m.adds.push_back({op, j});
          break;
        }
        case B_PreserveCollinear: m.pc = s.I("flag") != 0; used.PreserveCollinear(m.pc); break;
        case B_ReverseSolution: m.rev = s.I("flag") != 0; used.ReverseSolution(m.rev); break;
        case B_Clear: used.Clear(); m.adds.clear(); reuseAttached.clear(); sawExecOrClear = true; break;
        case B_ExecPaths: case B_ExecTree: {
          ClipType ct = (ClipType)(s.I("ct") % 5);
          FillRule fr = (FillRule)(s.I("fr") & 3);
          Paths64 solU, openU, solF, openF, solD, openD, solU2, openU2;
          FlatTree tU, tF, tD, tU2;
          bool okU, okF, okD, okU2;
          Clipper64 fresh, direct;
          applyAdds(fresh, m, P, false);
          applyAdds(direct, m, P, true);
          if (op == B_ExecPaths) {
            okU = used.Execute(ct, fr, solU, openU);
            okF = fresh.Execute(ct, fr, solF, openF);
            okD = direct.Execute(ct, fr, solD, openD);
            okU2 = used.Execute(ct, fr, solU2, openU2);
          } else {
            PolyTree64 a, b, d, a2;
            okU = used.Execute(ct, fr, a, openU); flat(a, tU);
            okF = fresh.Execute(ct, fr, b, openF); flat(b, tF);
            okD = direct.Execute(ct, fr, d, openD); flat(d, tD);
            okU2 = used.Execute(ct, fr, a2, openU2); flat(a2, tU2);
          }
          v.evals += 4;
          ++execs;
          if (okU != okF || solU != solF || openU != openF || tU != tF) { v.fail("used Clipper64 differs from a fresh one given the same paths and options" + at); goto done; }
          if (okU != okD || solU != solD || openU != openD || tU != tD) { v.fail("clipper fed from a shared ReuseableDataContainer64 differs from one fed the same paths directly" + at); goto done; }
          if (okU != okU2 || solU != solU2 || openU != openU2 || tU != tU2) { v.fail("executing the same call twice gives different results" + at); goto done; }
          if (execs > 1 || sawExecOrClear) v.nontrivial = true;
          sawExecOrClear = true;
          break;
        }
      }
    }
  }
done:
  freePools(P);
  return v;
}

Verdict judgeSeqD(const Case& c) {
  Verdict v;
  if (c.seq.empty() || c.seq.size() > 40) { v.discard = true; return v; }
  std::vector<PathsD> pool;
  for (int k = 0; k < 4; ++k) { int ec = 0; pool.push_back(ScalePaths<double, int64_t>(c.P("pool" + std::to_string(k)), 0.01, ec)); }
  int prec = (int)c.I("precision", 2);
  if (prec < -2 || prec > 4) prec = 2;
  ClipperD used(prec);
  std::vector<Added> adds;
  bool pc = true, rev = false, seen = false;
  int execs = 0;
  size_t step = 0;
  for (auto& s : c.seq) {
    ++step;
    int op = (int)s.I("op"), idx = (int)(s.I("idx") & 3);
    std::string at = " (ClipperD, step " + std::to_string(step) + ")";
    switch (op) {
      case B_AddSubject: used.AddSubject(pool[idx]); adds.push_back({op, idx}); break;
      case B_AddOpen: used.AddOpenSubject(pool[idx]); adds.push_back({op, idx}); break;
      case B_AddClip: used.AddClip(pool[idx]); adds.push_back({op, idx}); break;
      case B_PreserveCollinear: pc = s.I("flag") != 0; used.PreserveCollinear(pc); break;
      case B_ReverseSolution: rev = s.I("flag") != 0; used.ReverseSolution(rev); break;
      case B_Clear: used.Clear(); adds.clear(); seen = true; break;
      case B_ExecPaths: case B_ExecTree: {
        ClipType ct = (ClipType)(s.I("ct") % 5);
        FillRule fr = (FillRule)(s.I("fr") & 3);
        ClipperD fresh(prec);
        fresh.PreserveCollinear(pc); fresh.ReverseSolution(rev);
        for (auto& a : adds) { if (a.kind == B_AddSubject) fresh.AddSubject(pool[a.idx]); else if (a.kind == B_AddOpen) fresh.AddOpenSubject(pool[a.idx]); else fresh.AddClip(pool[a.idx]); }
        PathsD sU, oU, sF, oF;
        FlatTreeD tU, tF;
        bool okU, okF;
        if (op == B_ExecPaths) { okU = used.Execute(ct, fr, sU, oU); okF = fresh.Execute(ct, fr, sF, oF); }
        else { PolyTreeD a, b; okU = used.Execute(ct, fr, a, oU); okF = fresh.Execute(ct, fr, b, oF); flatD(a, tU); flatD(b, tF); }
        v.evals += 2;
        ++execs;
        if (okU != okF || sU != sF || oU != oF || tU != tF) { v.fail("used ClipperD differs from a fresh one given the same paths and options" + at); return v; }
        if (execs > 1 || seen) v.nontrivial = true;
        seen = true;
        break;
      }
      default: break;
    }
  }
  return v;
}

Case opCase(int op, int idx, int flag, int ct, int fr) {
  Case s;
  s.i["op"] = op; s.i["idx"] = idx; s.i["flag"] = flag; s.i["ct"] = ct; s.i["fr"] = fr;
  return s;
}

void genPool(Case& c) {
  int kind = (int)G::range(0, 2);
  if (kind == 0) {
    GEN::Lattice L = GEN::lattice();
    if (L.step > 1000) L.step = 1000;
    L.ox = G::sym(1000); L.oy = G::sym(1000);
    for (int k = 0; k < 4; ++k) c.p["pool" + std::to_string(k)] = GEN::rectPaths(L, 1, 2);
  } else if (kind == 1) {
    GEN::DegPool pool;
    int64_t M = GEN::magOfClass((int)G::range(0, 2));
    for (int k = 0; k < 4; ++k) c.p["pool" + std::to_string(k)] = GEN::degPaths(2, 8, M, pool);
  } else {
    for (int k = 0; k < 4; ++k) { Paths64 pp; int n = (int)G::range(1, 2); for (int t = 0; t < n; ++t) pp.push_back(GEN::randomPath(3, 8, 1000)); c.p["pool" + std::to_string(k)] = pp; }
  }
  if (G::chance(5)) {   // one large pool entry: runs of very different size on one object (capacity kept from a larger run)
    c.p["pool" + std::to_string(G::range(0, 3))] = {GEN::ring((int)G::range(80, 200), G::sym(200), G::sym(200), 600, 1000, G::coin()), GEN::ring((int)G::range(40, 120), G::sym(200), G::sym(200), 300, 900, G::coin())};
    ST.count("pool_with_large_paths");
  }
  ST.count("pool_kind_" + std::to_string(kind));
}

Case genSeq() {
  Case c;
  genPool(c);
  int n = (int)G::range(3, 14);
  for (int k = 0; k < n; ++k) {
    static const std::vector<int> ops = {B_AddSubject, B_AddSubject, B_AddOpen, B_AddClip, B_AddClip, B_AddReuse, B_PreserveCollinear,
                                         B_ReverseSolution, B_ExecPaths, B_ExecPaths, B_ExecTree, B_ExecTree, B_Clear};
    c.seq.push_back(opCase(G::oneOf(ops), (int)G::range(0, 3), (int)G::range(0, 1), (int)G::range(0, 4), (int)G::range(0, 3)));
  }
  c.i["precision"] = G::range(-2, 4);
  return c;
}

// exhaustive scope: all sequences of length 1..5 over a 9-letter alphabet on one fixed pool
void enumerateSeqs(const std::function<void(const Case&)>& f) {
  Case base;
  base.p["pool0"] = {{Point64(0, 0), Point64(10, 0), Point64(10, 10), Point64(0, 10)}, {Point64(2, 2), Point64(2, 8), Point64(8, 8), Point64(8, 2)}};
  base.p["pool1"] = {{Point64(5, -3), Point64(15, 4), Point64(7, 14), Point64(-2, 6)}};
  base.p["pool2"] = {{Point64(-4, 5), Point64(14, 5), Point64(14, 7), Point64(-4, 7)}, {Point64(5, 5), Point64(5, 5), Point64(9, 9)}};
  base.p["pool3"] = {{Point64(0, 0), Point64(10, 10), Point64(10, 0), Point64(0, 10)}};
  std::vector<Case> alphabet = {
      opCase(B_AddSubject, 0, 0, 0, 0), opCase(B_AddSubject, 1, 0, 0, 0), opCase(B_AddClip, 2, 0, 0, 0), opCase(B_AddOpen, 3, 0, 0, 0),
      opCase(B_ExecPaths, 0, 0, 1, 1), opCase(B_ExecTree, 0, 0, 2, 0), opCase(B_ExecPaths, 0, 0, 4, 2), opCase(B_Clear, 0, 0, 0, 0),
      opCase(B_AddReuse, 1, 0, 0, 0)};
  size_t A = alphabet.size();
  for (int len = 1; len <= 5; ++len) {
    size_t total = 1;
    for (int k = 0; k < len; ++k) total *= A;
    for (size_t code = 0; code < total; ++code) {
      Case c = base;
      size_t x = code;
      bool hasExec = false;
      for (int k = 0; k < len; ++k) { const Case& o = alphabet[x % A]; x /= A; c.seq.push_back(o); if (o.I("op") == B_ExecPaths || o.I("op") == B_ExecTree) hasExec = true; }
      if (hasExec) f(c);
    }
  }
}

// ---------------------------------------------------------------------------
// ClipperOffset: sequences against a fresh object; independence of distant paths/groups
// ---------------------------------------------------------------------------
enum OOp { O_AddPaths, O_AddPath, O_Miter, O_ArcTol, O_PC, O_Rev, O_ExecPaths, O_ExecTree, O_ExecCallback, O_Clear, O_NOPS };

struct OGroup { Paths64 paths; JoinType jt; EndType et; bool single; };
struct OModel { std::vector<OGroup> groups; double ml = 2, at = 0; bool pc = false, rev = false; bool cb = false; double cbA = 1, cbB = 1; };

void setupOffset(ClipperOffset& co, const OModel& m) {
  co.MiterLimit(m.ml); co.ArcTolerance(m.at); co.PreserveCollinear(m.pc); co.ReverseSolution(m.rev);
  for (auto& g : m.groups) { if (g.single) co.AddPath(g.paths[0], g.jt, g.et); else co.AddPaths(g.paths, g.jt, g.et); }
}

Verdict judgeOffsetSeq(const Case& c) {
  Verdict v;
  if (c.seq.empty() || c.seq.size() > 30) { v.discard = true; return v; }
  ClipperOffset used;
  OModel m;
  used.MiterLimit(m.ml); used.ArcTolerance(m.at); used.PreserveCollinear(m.pc); used.ReverseSolution(m.rev);
  int execs = 0;
  bool seen = false;
  size_t step = 0;
  for (auto& s : c.seq) {
    ++step;
    int op = (int)s.I("op");
    std::string at = " (ClipperOffset, step " + std::to_string(step) + ")";
    const Paths64& pp = c.P("pool" + std::to_string(s.I("idx") & 3));
    JoinType jt = (JoinType)(s.I("jt") & 3);
    EndType et = (EndType)(s.I("et") % 5);
    switch (op) {
      case O_AddPaths: if (!pp.empty()) { used.AddPaths(pp, jt, et); m.groups.push_back({pp, jt, et, false}); } break;
      case O_AddPath: if (!pp.empty()) { used.AddPath(pp[0], jt, et); m.groups.push_back({Paths64{pp[0]}, jt, et, true}); } break;
      case O_Miter: m.ml = s.D("x", 2.0); used.MiterLimit(m.ml); break;
      case O_ArcTol: m.at = s.D("x", 0.0); used.ArcTolerance(m.at); break;
      case O_PC: m.pc = s.I("flag") != 0; used.PreserveCollinear(m.pc); break;
      case O_Rev: m.rev = s.I("flag") != 0; used.ReverseSolution(m.rev); break;
      case O_Clear: used.Clear(); m.groups.clear(); seen = true; break;
      case O_ExecPaths: case O_ExecTree: case O_ExecCallback: {
        double delta = s.D("delta", 1.0);
        ClipperOffset fresh;
        setupOffset(fresh, m);
        Paths64 sU, sF, sU2;
        FlatTree tU, tF;
        auto cbFor = [](double a, double b) { return [a, b](const Path64&, const PathD&, size_t curr, size_t) { return (curr & 1) ? a : b; }; };
        if (op == O_ExecCallback) {
          // Execute(DeltaCallback64, ...) installs the callback for good: it is part of the object's options from here on
          m.cb = true; m.cbA = delta; m.cbB = s.D("delta2", delta);
          used.Execute(cbFor(m.cbA, m.cbB), sU);
          fresh.Execute(cbFor(m.cbA, m.cbB), sF);
          used.Execute(cbFor(m.cbA, m.cbB), sU2);
        } else {
          if (m.cb) fresh.SetDeltaCallback(cbFor(m.cbA, m.cbB));
          if (op == O_ExecPaths) { used.Execute(delta, sU); fresh.Execute(delta, sF); used.Execute(delta, sU2); }
          else { PolyTree64 a, b, a2; used.Execute(delta, a); fresh.Execute(delta, b); flat(a, tU); flat(b, tF); used.Execute(delta, a2); FlatTree t2; flat(a2, t2); if (t2 != tU) { v.fail("executing the same offset twice gives different trees" + at); return v; } }
        }
        v.evals += 3;
        ++execs;
        if (sU != sF || tU != tF || used.ErrorCode() != fresh.ErrorCode()) { v.fail("used ClipperOffset differs from a fresh one given the same groups and options" + at); return v; }
        if (op != O_ExecTree && sU != sU2) { v.fail("executing the same offset twice gives different results" + at); return v; }
        if (execs > 1 || seen) v.nontrivial = true;
        seen = true;
        break;
      }
      default: break;
    }
  }
  return v;
}

Case genOffsetSeq() {
  Case c;
  // pools: polygons / polylines incl. 1- and 2-point and empty paths
  for (int k = 0; k < 4; ++k) {
    Paths64 pp;
    int n = (int)G::range(1, 3);
    for (int t = 0; t < n; ++t) {
      int kind = (int)G::range(0, 5);
      if (kind == 0) pp.push_back(GEN::ring((int)G::range(3, 7), G::sym(300), G::sym(300), 40, 120, G::coin()));
      else if (kind == 1) pp.push_back(GEN::randomPath(2, 2, 300));
      else if (kind == 2) pp.push_back(GEN::randomPath(1, 1, 300));
      else if (kind == 3) pp.push_back(Path64());
      else pp.push_back(GEN::randomPath(3, 7, 300));
    }
    c.p["pool" + std::to_string(k)] = pp;
  }
  if (G::chance(5)) { c.p["pool" + std::to_string(G::range(0, 3))] = {GEN::ring((int)G::range(80, 200), G::sym(300), G::sym(300), 900, 1000, G::coin())}; ST.count("pool_with_large_paths"); }
  int n = (int)G::range(3, 12);
  for (int k = 0; k < n; ++k) {
    static const std::vector<int> ops = {O_AddPaths, O_AddPaths, O_AddPaths, O_AddPath, O_Miter, O_ArcTol, O_PC, O_Rev, O_ExecPaths, O_ExecPaths, O_ExecTree, O_ExecCallback, O_Clear};
    Case s;
    s.i["op"] = G::oneOf(ops); s.i["idx"] = G::range(0, 3); s.i["jt"] = G::range(0, 3); s.i["et"] = G::range(0, 4); s.i["flag"] = G::range(0, 1);
    s.d["x"] = s.i["op"] == O_Miter ? G::real(0.5, 5) : (G::coin() ? 0.0 : G::real(0.05, 3));
    s.d["delta"] = G::chance(15) ? G::real(-0.6, 0.6) : G::real(-60, 60);
    s.d["delta2"] = G::real(-20, 20);
    c.seq.push_back(s);
  }
  return c;
}

// independence: paths / groups too far apart to interact are offset exactly as alone, in every order
Verdict judgeIndep(const Case& c) {
  Verdict v;
  int n = (int)c.I("n");
  if (n < 2 || n > 4) { v.discard = true; return v; }
  double delta = c.D("delta"), ml = c.D("ml", 2.0), at = c.D("at", 0.0);
  bool rev = c.I("rev") != 0, oneGroup = c.I("onegroup") != 0;
  std::vector<OGroup> items;
  for (int k = 0; k < n; ++k) {
    const Paths64& pp = c.P("item" + std::to_string(k));
    if (pp.empty() || pp[0].empty()) { v.discard = true; return v; }
    items.push_back({pp, (JoinType)(c.I("jt" + std::to_string(k)) & 3), (EndType)(c.I("et" + std::to_string(k)) % 5), false});
  }
  if (oneGroup) for (auto& it : items) { it.jt = items[0].jt; it.et = items[0].et; }
  // distance requirement: bounding boxes separated by more than 2 * (|delta| * factor + 3)
  double f = std::max(2.0, std::max(ml, 1.5));
  double need = 2 * (std::fabs(delta) * f + 3);
  std::vector<Rect64> bb;
  for (auto& it : items) bb.push_back(GetBounds(it.paths));
  for (int i = 0; i < n; ++i)
    for (int j = i + 1; j < n; ++j) {
      double dx = std::max<double>(0, std::max<double>((double)bb[i].left - (double)bb[j].right, (double)bb[j].left - (double)bb[i].right));
      double dy = std::max<double>(0, std::max<double>((double)bb[i].top - (double)bb[j].bottom, (double)bb[j].top - (double)bb[i].bottom));
      if (std::max(dx, dy) < need) { v.discard = true; return v; }
    }
  // with Polygon end type the orientation convention is taken from the lowest path of the group / the first Polygon
  // group of the call: only inputs with a consistent orientation are in the domain
  int sign = 0;
  for (auto& it : items)
    if (it.et == EndType::Polygon)
      for (auto& p : it.paths) { i128 a = O::area2(p); int s = a > 0 ? 1 : a < 0 ? -1 : 0; if (s == 0) continue; if (sign == 0) sign = s; else if (s != sign) { v.discard = true; return v; } }
  // KF-C12-c: zero-area paths (single points, 2-point paths) in Polygon groups of a negatively oriented call:
  // excluded by construction, counted
  bool zeroAreaPoly = false;
  for (auto& it : items) if (it.et == EndType::Polygon) for (auto& p : it.paths) if (O::area2(p) == 0) zeroAreaPoly = true;
  if (c.I("emptyat", -1) >= 0 && !oneGroup) zeroAreaPoly = true;   // the inserted all-empty Polygon group has no orientation either
  if (zeroAreaPoly && sign < 0) { v.known = "KF-C12-c"; ST.count("excluded_zero_area_path_in_negative_polygon_call"); return v; }
  bool anyPolygon = false, anyOther = false;
  for (auto& it : items) (it.et == EndType::Polygon ? anyPolygon : anyOther) = true;
  // a reversed-orientation Polygon group flips the clean-up union's fill rule for the whole call; open-path groups
  // (always positive) combined with negatively oriented polygons are outside the documented use
  if (anyPolygon && anyOther && sign < 0) { v.discard = true; return v; }

  int emptyAt = (int)c.I("emptyat", -1);
  if (emptyAt >= 0) ST.count("with_all_empty_group");
  auto run = [&](const std::vector<int>& order, bool together, double delta) {
    Paths64 result;
    auto exec = [&](const std::vector<int>& idxs) {
      ClipperOffset co(ml, at, false, rev);
      if (oneGroup) { Paths64 all; for (int i : idxs) all.insert(all.end(), items[i].paths.begin(), items[i].paths.end()); co.AddPaths(all, items[0].jt, items[0].et); }
      else {
        // optionally a group holding only an empty path is added before position emptyAt (it has nothing to offset
        // and must not influence the other groups)
        int pos = 0;
        for (int i : idxs) {
          if ((int)idxs.size() > 1 && pos == emptyAt) co.AddPaths(Paths64{Path64()}, JoinType::Miter, EndType::Polygon);
          co.AddPaths(items[i].paths, items[i].jt, items[i].et);
          ++pos;
        }
      }
      Paths64 s;
      co.Execute(delta, s);
      result.insert(result.end(), s.begin(), s.end());
    };
    if (together) exec(order);
    else for (int i : order) exec({i});
    return O::canon(result);
  };
  std::vector<int> order;
  for (int k = 0; k < n; ++k) order.push_back(k);
  Paths64 alone = run(order, false, delta);
  v.evals = 0;
  // 0: identical vertex lists, 1: same region up to slivers, 2: regions differ
  auto compare = [&](const Paths64& tog, const Paths64& al) {
    if (tog == al) return 0;
    Paths64 both = tog;
    both.insert(both.end(), al.begin(), al.end());
    O::Samples S = O::faceSamples(O::segsOf(both), 2.5L, 3000);
    for (auto& pt : S.pts) if (O::winding(pt, tog).w != O::winding(pt, al).w) return 2;
    return 1;
  };
  do {
    Paths64 tog = run(order, true, delta);
    v.evals++;
    if (tog != alone) {
      // KF-C12-b: the clean-up union rounds crossing points per scanbeam, and distant paths add scanlines, so the
      // vertex lists may differ by unit-sized slivers.  Differences confined to within 2.5 units of the result
      // boundaries are that artefact.
      int cmp = compare(tog, alone);
      if (cmp == 1) { v.known = "KF-C12-b"; ST.count("joint_result_differs_only_by_slivers"); continue; }
      // A larger region difference can still be the union's lost-hole artefact (KF-ENG-a), which depends on the scanline
      // structure and therefore on the presence of the distant paths.  It is isolated in delta; state carried from one
      // path / group to the next (wrong caps, width, sign, missing path) differs for every delta.
      {
        double ad = std::fabs(delta), sg = delta < 0 ? -1.0 : 1.0;
        int judged = 0, bad = 0;
        bool farBad = false;
        for (double pd : {0.37, -0.37, 0.73, -0.73, 1.9, -1.9, 3.7, -3.7, 6.1, -6.1}) {
          double d2 = ad + pd;
          if (d2 < 0.55) continue;
          ++judged;
          if (compare(run(order, true, sg * d2), run(order, false, sg * d2)) == 2) { ++bad; if (std::fabs(pd) > 3) farBad = true; }
        }
        if (ad >= 0.5 && judged >= 3 && bad * 2 <= judged && !farBad) { v.known = "KF-ENG-a"; ST.count("joint_result_differs_by_union_artefact_isolated_in_delta"); continue; }
      }
      std::string o;
      for (int i : order) o += std::to_string(i);
      v.fail(std::string(oneGroup ? "paths of one group" : "groups") + " too far apart to interact are not offset as they are alone (order " + o + ")");
      return v;
    }
  } while (std::next_permutation(order.begin(), order.end()));
  v.nontrivial = !alone.empty();
  bool has2 = false, has3 = false, hasJoined = false;
  for (auto& it : items) { for (auto& p : it.paths) { if (p.size() == 2) has2 = true; if (p.size() >= 3) has3 = true; } if (it.et == EndType::Joined) hasJoined = true; }
  if (has2 && has3) ST.count("mix_of_2point_and_longer_paths");
  if (hasJoined) ST.count("with_joined_group");
  ST.count(oneGroup ? "one_group" : "several_groups");
  return v;
}

Case genIndep() {
  Case c;
  int n = (int)G::range(2, 3);
  c.i["n"] = n;
  double delta = G::chance(10) ? G::real(-0.7, 0.7) : G::real(-40, 40);
  c.d["delta"] = delta;
  c.d["ml"] = G::real(1.0, 4.0);
  c.d["at"] = G::coin() ? 0.0 : G::real(0.05, 2.0);
  c.i["rev"] = G::range(0, 1);
  c.i["onegroup"] = G::range(0, 1);
  c.i["emptyat"] = G::chance(25) ? G::range(0, n - 1) : -1;
  bool ccw = G::coin();
  for (int k = 0; k < n; ++k) {
    int64_t cx = k * 2000, cy = G::sym(50);
    Paths64 pp;
    int m = (int)G::range(1, 2);
    for (int t = 0; t < m; ++t) {
      int kind = (int)G::range(0, 4);
      int64_t ox = cx + t * 700;
      if (kind == 0) pp.push_back(GEN::ring((int)G::range(3, 7), ox, cy, 40, 120, ccw));
      else if (kind == 1) { Path64 p = GEN::randomPath(2, 2, 100, ox, cy); pp.push_back(p); }
      else if (kind == 2) pp.push_back(GEN::randomPath(1, 1, 100, ox, cy));
      else pp.push_back(GEN::randomPath(3, 6, 120, ox, cy));
    }
    c.p["item" + std::to_string(k)] = pp;
    c.i["jt" + std::to_string(k)] = G::range(0, 3);
    c.i["et" + std::to_string(k)] = G::range(0, 4);
  }
  if (G::chance(6)) {
    // one item replaced by a single huge polygon (extent 3e9..2e10, far away from everything else): whatever the
    // offsetter derives from it (orientation, lowest path) must not leak to the other items
    int k = (int)G::range(0, n - 1);
    double R = G::oneOf(std::vector<double>{3e9, 6e9, 2e10});
    c.p["item" + std::to_string(k)] = {GEN::ring((int)G::range(4, 8), (int64_t)(-20 * R), (int64_t)(G::coin() ? 0 : 5 * R), 0.7 * R, R, ccw)};
    c.i["et" + std::to_string(k)] = 0;   // EndType::Polygon
    ST.count("huge_item");
  }
  return c;
}

// ---------------------------------------------------------------------------
// RectClip64 / RectClipLines64: repeated Execute on one object
// ---------------------------------------------------------------------------
Verdict judgeRect(const Case& c) {
  Verdict v;
  Rect64 r(c.I("l"), c.I("t"), c.I("r"), c.I("b"));
  RectClip64 rc(r);
  RectClipLines64 rl(r);
  int n = (int)c.I("n");
  for (int k = 0; k < n; ++k) {
    const Paths64& pp = c.P("in" + std::to_string(k));
    Paths64 a = rc.Execute(pp), b = RectClip64(r).Execute(pp), a2 = rc.Execute(pp);
    Paths64 la = rl.Execute(pp), lb = RectClipLines64(r).Execute(pp), la2 = rl.Execute(pp);
    v.evals += 6;
    if (a != b) { v.fail("used RectClip64 differs from a fresh one (call " + std::to_string(k + 1) + ")"); return v; }
    if (a != a2) { v.fail("RectClip64::Execute not repeatable (call " + std::to_string(k + 1) + ")"); return v; }
    if (la != lb) { v.fail("used RectClipLines64 differs from a fresh one (call " + std::to_string(k + 1) + ")"); return v; }
    if (la != la2) { v.fail("RectClipLines64::Execute not repeatable (call " + std::to_string(k + 1) + ")"); return v; }
    if (k > 0 && (!a.empty() || !la.empty())) v.nontrivial = true;
  }
  return v;
}
Case genRect() {
  Case c;
  int64_t M = G::oneOf(std::vector<int64_t>{20, 1000, int64_t(1) << 30});
  int64_t l = G::sym(M), r = G::sym(M), t = G::sym(M), b = G::sym(M);
  c.i["l"] = std::min(l, r); c.i["r"] = std::max(l, r); c.i["t"] = std::min(t, b); c.i["b"] = std::max(t, b);
  int n = (int)G::range(2, 4);
  c.i["n"] = n;
  for (int k = 0; k < n; ++k) {
    Paths64 pp;
    int m = (int)G::range(0, 3);
    for (int j = 0; j < m; ++j) {
      Path64 p = GEN::randomPath(0, 9, M + M / 2);
      if (G::chance(3)) { p = GEN::randomPath(60, 300, M + M / 2); ST.count("large_path"); }
      for (auto& q : p) { int s = (int)G::range(0, 9); if (s == 0) q.x = c.i["l"]; else if (s == 1) q.x = c.i["r"]; else if (s == 2) q.y = c.i["t"]; else if (s == 3) q.y = c.i["b"]; }
      pp.push_back(p);
    }
    c.p["in" + std::to_string(k)] = pp;
  }
  return c;
}

}  // namespace

int main(int argc, char** argv) {
  Harness H;
  H.property = "C12";
  H.parts.push_back({"clipper64", genSeq, judgeSeq64, nullptr, true});
  H.parts.push_back({"clipperD", genSeq, judgeSeqD, nullptr, true});
  H.parts.push_back({"offset", genOffsetSeq, judgeOffsetSeq, nullptr, true});
  H.parts.push_back({"offset_indep", genIndep, judgeIndep, nullptr, true});
  H.parts.push_back({"rect", genRect, judgeRect, nullptr, true});
  H.parts.push_back({"seq5", nullptr, judgeSeq64, enumerateSeqs, false});
  return harnessMain(argc, argv, H);
}
