// Implementation of the neutral API for ONE library variant (selected by the
// compile flags: -DClipper2Lib=<ns> -DSHIM_NS=<shim ns> [-DUSINGZ] ...).
#include "shim.hpp"

#include "clipper2/clipper.h"

#ifndef SHIM_NS
#error "SHIM_NS must be defined"
#endif
#define STR2(x) #x
#define STR(x) STR2(x)

using namespace Clipper2Lib;

namespace {
inline Point64 toPt(const shim::Pt& p) {
#ifdef USINGZ
  return Point64(p.x, p.y, p.z);
#else
  return Point64(p.x, p.y);
#endif
}
inline shim::Pt fromPt(const Point64& p) {
#ifdef USINGZ
  return shim::Pt{p.x, p.y, p.z};
#else
  return shim::Pt{p.x, p.y, 0};
#endif
}
inline PointD toPtD(const shim::PtD& p) {
#ifdef USINGZ
  return PointD(p.x, p.y, p.z);
#else
  return PointD(p.x, p.y);
#endif
}
inline shim::PtD fromPtD(const PointD& p) {
#ifdef USINGZ
  return shim::PtD{p.x, p.y, p.z};
#else
  return shim::PtD{p.x, p.y, 0};
#endif
}
Path64 toPath(const shim::Path& p) { Path64 r; r.reserve(p.size()); for (auto& q : p) r.push_back(toPt(q)); return r; }
Paths64 toPaths(const shim::Paths& pp) { Paths64 r; r.reserve(pp.size()); for (auto& p : pp) r.push_back(toPath(p)); return r; }
shim::Path fromPath(const Path64& p) { shim::Path r; r.reserve(p.size()); for (auto& q : p) r.push_back(fromPt(q)); return r; }
shim::Paths fromPaths(const Paths64& pp) { shim::Paths r; r.reserve(pp.size()); for (auto& p : pp) r.push_back(fromPath(p)); return r; }
PathD toPathD(const shim::PathD& p) { PathD r; for (auto& q : p) r.push_back(toPtD(q)); return r; }
PathsD toPathsD(const shim::PathsD& pp) { PathsD r; for (auto& p : pp) r.push_back(toPathD(p)); return r; }
shim::PathD fromPathD(const PathD& p) { shim::PathD r; for (auto& q : p) r.push_back(fromPtD(q)); return r; }
shim::PathsD fromPathsD(const PathsD& pp) { shim::PathsD r; for (auto& p : pp) r.push_back(fromPathD(p)); return r; }

void fromTree(const PolyPath64& n, shim::TreeNode& out) {
  out.poly = fromPath(n.Polygon());
  out.isHole = n.IsHole();
  for (size_t k = 0; k < n.Count(); ++k) { out.kids.emplace_back(); fromTree(*n[k], out.kids.back()); }
}
void fromTreeD(const PolyPathD& n, shim::TreeNodeD& out) {
  out.poly = fromPathD(n.Polygon());
  out.isHole = n.IsHole();
  for (size_t k = 0; k < n.Count(); ++k) { out.kids.emplace_back(); fromTreeD(*n[k], out.kids.back()); }
}

#ifdef USINGZ
struct ZState { int mode; int64_t zconst; int64_t counter; std::vector<shim::ZLog>* log; };
inline int64_t zhash(const Point64& a, const Point64& b, const Point64& c, const Point64& d) {
  uint64_t h = 1469598103934665603ull;
  for (int64_t v : {a.x, a.y, b.x, b.y, c.x, c.y, d.x, d.y}) { h ^= (uint64_t)v; h *= 1099511628211ull; }
  return (int64_t)(h >> 1) | 1;
}
#endif
}  // namespace

namespace SHIM_NS {

const char* variantName() { return STR(SHIM_NS); }

shim::BoolResult boolop(const shim::BoolArgs& a) {
  shim::BoolResult r;
#if (defined(__cpp_exceptions) && __cpp_exceptions)
  try {
#endif
    Clipper64 c;
    c.PreserveCollinear(a.preserveCollinear);
    c.ReverseSolution(a.reverse);
#ifdef USINGZ
    ZState zs{a.zcb, a.zconst, 1000000, &r.zlog};
    c.DefaultZ = a.defaultZ;
    if (a.zcb)
      c.SetZCallback([&zs](const Point64& e1b, const Point64& e1t, const Point64& e2b, const Point64& e2t, Point64& pt) {
        if (zs.mode == 1) pt.z = zs.zconst;
        else if (zs.mode == 2) pt.z = ++zs.counter;
        else pt.z = zhash(e1b, e1t, e2b, e2t);
        zs.log->push_back({pt.x, pt.y, pt.z});
      });
#endif
    if (!a.subj.empty()) c.AddSubject(toPaths(a.subj));
    if (!a.open.empty()) c.AddOpenSubject(toPaths(a.open));
    if (!a.clip.empty()) c.AddClip(toPaths(a.clip));
    Paths64 closed, open;
    if (a.useTree) {
      PolyTree64 tree;
      r.ok = c.Execute((ClipType)a.ct, (FillRule)a.fr, tree, open);
      fromTree(tree, r.tree);
      closed = PolyTreeToPaths64(tree);
    } else {
      r.ok = c.Execute((ClipType)a.ct, (FillRule)a.fr, closed, open);
    }
    r.closed = fromPaths(closed);
    r.open = fromPaths(open);
    r.error = c.ErrorCode();
#if (defined(__cpp_exceptions) && __cpp_exceptions)
  } catch (const Clipper2Exception&) {
    r.threw = true;
  }
#endif
  return r;
}

shim::BoolResultD boolopD(const shim::BoolArgsD& a) {
  shim::BoolResultD r;
#if (defined(__cpp_exceptions) && __cpp_exceptions)
  try {
#endif
    ClipperD c(a.precision);
    c.PreserveCollinear(a.preserveCollinear);
    c.ReverseSolution(a.reverse);
#ifdef USINGZ
    ZState zs{a.zcb, a.zconst, 1000000, &r.zlog};
    if (a.zcb)
      c.SetZCallback([&zs](const PointD& e1b, const PointD& e1t, const PointD& e2b, const PointD& e2t, PointD& pt) {
        (void)e1b; (void)e1t; (void)e2b; (void)e2t;
        if (zs.mode == 1) pt.z = zs.zconst;
        else pt.z = ++zs.counter;
        zs.log->push_back({(int64_t)0, (int64_t)0, pt.z});
      });
#endif
    if (!a.subj.empty()) c.AddSubject(toPathsD(a.subj));
    if (!a.open.empty()) c.AddOpenSubject(toPathsD(a.open));
    if (!a.clip.empty()) c.AddClip(toPathsD(a.clip));
    PathsD closed, open;
    if (a.useTree) {
      PolyTreeD tree;
      r.ok = c.Execute((ClipType)a.ct, (FillRule)a.fr, tree, open);
      fromTreeD(tree, r.tree);
      closed = PolyTreeToPathsD(tree);
    } else {
      r.ok = c.Execute((ClipType)a.ct, (FillRule)a.fr, closed, open);
    }
    r.closed = fromPathsD(closed);
    r.open = fromPathsD(open);
    r.error = c.ErrorCode();
#if (defined(__cpp_exceptions) && __cpp_exceptions)
  } catch (const Clipper2Exception&) {
    r.threw = true;
  }
#endif
  return r;
}

shim::OffsetResult offset(const shim::OffsetArgs& a) {
  shim::OffsetResult r;
  ClipperOffset co(a.miterLimit, a.arcTol, a.preserveCollinear, a.reverse);
#ifdef USINGZ
  ZState zs{a.zcb, a.zconst, 1000000, &r.zlog};
  if (a.zcb)
    co.SetZCallback([&zs](const Point64& e1b, const Point64& e1t, const Point64& e2b, const Point64& e2t, Point64& pt) {
      if (zs.mode == 1) pt.z = zs.zconst;
      else if (zs.mode == 2) pt.z = ++zs.counter;
      else pt.z = zhash(e1b, e1t, e2b, e2t);
      zs.log->push_back({pt.x, pt.y, pt.z});
    });
#endif
  for (auto& g : a.groups) co.AddPaths(toPaths(g.paths), (JoinType)g.jt, (EndType)g.et);
  if (a.useTree) {
    PolyTree64 tree;
    co.Execute(a.delta, tree);
    fromTree(tree, r.tree);
    r.closed = fromPaths(PolyTreeToPaths64(tree));
  } else {
    Paths64 sol;
    co.Execute(a.delta, sol);
    r.closed = fromPaths(sol);
  }
  r.error = co.ErrorCode();
  return r;
}

shim::Paths rectclip(const shim::RectArgs& a) {
  Rect64 rect(a.l, a.t, a.r, a.b);
  Paths64 in = toPaths(a.paths);
  if (a.lines) return fromPaths(RectClipLines(rect, in));
  return fromPaths(RectClip(rect, in));
}

shim::ProbeResult probe(const shim::ProbeArgs& a) {
  shim::ProbeResult r;
  PathsD in = toPathsD(a.paths);
  auto count = [&r](const PathsD& pp) { r.outPaths = pp.size(); for (auto& p : pp) r.outPts += p.size(); };
#if (defined(__cpp_exceptions) && __cpp_exceptions)
  try {
#endif
    switch (a.kind) {
      case shim::P_ClipperD_Subject: case shim::P_ClipperD_Clip: case shim::P_ClipperD_Open: {
        ClipperD c(a.precision);
        r.hasErrorCode = true;
        PathsD big = {{PointD(a.l, a.t), PointD(a.r, a.t), PointD(a.r, a.b), PointD(a.l, a.b)}};
        if (a.kind == shim::P_ClipperD_Subject) c.AddSubject(in);
        else if (a.kind == shim::P_ClipperD_Clip) { c.AddSubject(in); c.AddClip(in); }
        else c.AddOpenSubject(in);
        PathsD sol, so;
        c.Execute(ClipType::Union, FillRule::NonZero, sol, so);
        r.error = c.ErrorCode();
        count(sol);
        r.outPaths += so.size();
        for (auto& p : so) r.outPts += p.size();
        break;
      }
      case shim::P_BooleanOpD: count(BooleanOp(ClipType::Union, FillRule::NonZero, in, PathsD(), a.precision)); break;
      case shim::P_BooleanOpTreeD: {
        PolyTreeD t;
        BooleanOp(ClipType::Union, FillRule::NonZero, in, PathsD(), t, a.precision);
        count(PolyTreeToPathsD(t));
        break;
      }
      case shim::P_UnionD: count(Union(in, FillRule::NonZero, a.precision)); break;
      case shim::P_InflatePathsD: count(InflatePaths(in, a.delta, JoinType::Miter, EndType::Polygon, 2.0, a.precision)); break;
      case shim::P_RectClipD: count(RectClip(RectD(a.l, a.t, a.r, a.b), in, a.precision)); break;
      case shim::P_RectClipLinesD: count(RectClipLines(RectD(a.l, a.t, a.r, a.b), in, a.precision)); break;
      case shim::P_TrimCollinearD: { PathD p = TrimCollinear(in.empty() ? PathD() : in[0], a.precision, false); r.outPaths = p.empty() ? 0 : 1; r.outPts = p.size(); break; }
      case shim::P_ScalePath: {
        r.hasErrorCode = true;
        Path64 p = ScalePath<int64_t, double>(in.empty() ? PathD() : in[0], a.scale, r.error);
        r.outPaths = p.empty() ? 0 : 1; r.outPts = p.size();
        break;
      }
      case shim::P_ScalePaths2: {
        r.hasErrorCode = true;
        Paths64 pp = ScalePaths<int64_t, double>(in, a.scaleX, a.scaleY, r.error);
        r.outPaths = pp.size(); for (auto& p : pp) r.outPts += p.size();
        break;
      }
      case shim::P_MakePath: { Path64 p = MakePath(a.list); r.outPaths = p.empty() ? 0 : 1; r.outPts = p.size(); break; }
      case shim::P_MakePathD: { PathD p = MakePathD(a.list); r.outPaths = p.empty() ? 0 : 1; r.outPts = p.size(); break; }
      default: break;
    }
#if (defined(__cpp_exceptions) && __cpp_exceptions)
  } catch (const Clipper2Exception&) {
    r.threw = true;
  }
#endif
  return r;
}

bool segIntersect(const shim::Pt& a, const shim::Pt& b, const shim::Pt& c, const shim::Pt& d, shim::Pt& ip) {
  Point64 r;
  bool ok = GetSegmentIntersectPt(toPt(a), toPt(b), toPt(c), toPt(d), r);
  ip = fromPt(r);
  return ok;
}

}  // namespace SHIM_NS
