// C14 — independent objects can be used from different threads (built with ThreadSanitizer).
#include <atomic>
#include <thread>

#include "gen.hpp"
#include "clipper2/clipper.minkowski.h"

namespace {

enum Op { T_Bool, T_BoolTree, T_BoolShared, T_BoolD, T_Offset, T_OffsetTree, T_Rect, T_RectLines, T_Mink, T_Utils, T_Inflate, T_OffsetCb, T_DFuncs, T_BoolDTree, T_NOPS };
const char* opName(int op) { static const char* n[] = {"Clipper64", "Clipper64-tree", "Clipper64-shared-container", "ClipperD", "ClipperOffset", "ClipperOffset-tree", "RectClip", "RectClipLines", "Minkowski", "utilities", "InflatePaths", "ClipperOffset-delta-callback", "PathsD-functions", "ClipperD-tree"}; return n[op]; }

void digestPaths(const Paths64& pp, std::string& out) { for (auto& p : pp) { out += '['; for (auto& q : p) { out += std::to_string(q.x); out += ','; out += std::to_string(q.y); out += ' '; } out += ']'; } out += '|'; }
void digestPathsD(const PathsD& pp, std::string& out) { for (auto& p : pp) { out += '['; for (auto& q : p) { out += hexfloat(q.x); out += ','; out += hexfloat(q.y); out += ' '; } out += ']'; } out += '|'; }
void digestTree(const PolyPath64& n, std::string& out) { for (size_t k = 0; k < n.Count(); ++k) { out += '('; digestPaths(Paths64{n[k]->Polygon()}, out); digestTree(*n[k], out); out += ')'; } }

std::string runOp(const Case& o, const ReuseableDataContainer64* shared) {
  std::string d;
  int op = (int)o.I("op");
  const Paths64 &a = o.P("a"), &b = o.P("b");
  ClipType ct = (ClipType)(1 + (o.I("ct") & 3));
  FillRule fr = (FillRule)(o.I("fr") & 3);
  switch (op) {
    case T_Bool: case T_BoolTree: case T_BoolShared: {
      Clipper64 c;
      c.PreserveCollinear(o.I("pc") != 0);
      if (op == T_BoolShared && shared) c.AddReuseableData(*shared); else { c.AddSubject(a); }
      c.AddClip(b);
      Paths64 sol, so;
      if (op == T_BoolTree) { PolyTree64 t; c.Execute(ct, fr, t, so); digestTree(t, d); }
      else { c.Execute(ct, fr, sol, so); digestPaths(sol, d); }
      digestPaths(so, d);
      break;
    }
    case T_BoolD: {
      ClipperD c(2);
      int ec = 0;
      c.AddSubject(ScalePaths<double, int64_t>(a, 0.01, ec)); c.AddClip(ScalePaths<double, int64_t>(b, 0.01, ec));
      PathsD sol; c.Execute(ct, fr, sol); digestPathsD(sol, d);
      break;
    }
    case T_Offset: case T_OffsetTree: {
      ClipperOffset co(o.D("ml", 2.0), o.D("at", 0.0));
      co.AddPaths(a, (JoinType)(o.I("jt") & 3), (EndType)(o.I("et") % 5));
      if (op == T_OffsetTree) { PolyTree64 t; co.Execute(o.D("delta"), t); digestTree(t, d); }
      else { Paths64 s; co.Execute(o.D("delta"), s); digestPaths(s, d); }
      break;
    }
    case T_Rect: case T_RectLines: {
      Rect64 r(o.I("l"), o.I("t"), o.I("r"), o.I("b"));
      digestPaths(op == T_Rect ? RectClip(r, a) : RectClipLines(r, a), d);
      break;
    }
    case T_Mink: {
      if (!a.empty() && !b.empty()) { digestPaths(MinkowskiSum(a[0], b[0], o.I("pc") != 0), d); digestPaths(MinkowskiDiff(a[0], b[0], o.I("pc") != 0), d); }
      break;
    }
    case T_Utils: {
      for (auto& p : a) { digestPaths(Paths64{TrimCollinear(p, false), SimplifyPath(p, 2.0, true), RamerDouglasPeucker(p, 2.0)}, d); d += std::to_string(Area(p)); d += PointInPolygon(Point64(o.I("l"), o.I("t")), p) == PointInPolygonResult::IsInside ? 'i' : 'o'; }
      digestPaths(Paths64{Ellipse(Point64(0, 0), 20.0 + std::fabs(o.D("delta")), 30.0 + (double)(o.I("jt") & 3))}, d);
      break;
    }
    case T_OffsetCb: {
      // variable offsetting: a pure callback (depends only on its arguments and this job's delta)
      ClipperOffset co(o.D("ml", 2.0), o.D("at", 0.0));
      co.AddPaths(a, (JoinType)(o.I("jt") & 3), (EndType)(o.I("et") % 5));
      double dl = o.D("delta");
      co.SetDeltaCallback([dl](const Path64& path, const PathD&, size_t curr, size_t) { return dl * (1.0 + 0.25 * (double)(curr % 3)) + (double)(path.size() % 2); });
      Paths64 s; co.Execute(1.0, s); digestPaths(s, d);
      break;
    }
    case T_DFuncs: {
      // every PathsD free function with a per-operation precision (threads use different ones at the same time)
      int ec = 0, prec = (int)o.I("prec", 2);
      PathsD ad = ScalePaths<double, int64_t>(a, 0.01, ec), bd = ScalePaths<double, int64_t>(b, 0.01, ec);
      digestPathsD(InflatePaths(ad, o.D("delta") * 0.01, (JoinType)(o.I("jt") & 3), (EndType)(o.I("et") % 5), o.D("ml", 2.0), prec, o.D("at", 0.0)), d);
      RectD r(o.I("l") * 0.01, o.I("t") * 0.01, o.I("r") * 0.01, o.I("b") * 0.01);
      digestPathsD(RectClip(r, ad, prec), d); digestPathsD(RectClipLines(r, ad, prec), d);
      if (!ad.empty() && !bd.empty()) { digestPathsD(MinkowskiSum(ad[0], bd[0], o.I("pc") != 0, prec), d); digestPathsD(MinkowskiDiff(ad[0], bd[0], o.I("pc") != 0, prec), d); }
      digestPathsD(SimplifyPaths(ad, 0.05, true), d);
      digestPathsD(BooleanOp(ct, fr, ad, bd, prec), d);
      for (auto& p : ad) digestPathsD(PathsD{TrimCollinear(p, prec, false)}, d);
      break;
    }
    case T_BoolDTree: {
      ClipperD c((int)o.I("prec", 2));
      int ec = 0;
      c.AddSubject(ScalePaths<double, int64_t>(a, 0.01, ec)); c.AddClip(ScalePaths<double, int64_t>(b, 0.01, ec));
      PolyTreeD t; PathsD so; c.Execute(ct, fr, t, so);
      digestPathsD(PolyTreeToPathsD(t), d); d += std::to_string(t.Area()); digestPathsD(so, d);
      break;
    }
    default: digestPaths(InflatePaths(a, o.D("delta"), (JoinType)(o.I("jt") & 3), (EndType)(o.I("et") % 5)), d);
  }
  return d;
}

struct Timed { std::string digest; int64_t t0, t1; int op; };

Verdict judge(const Case& c) {
  Verdict v;
  int T = (int)c.I("threads");
  if (T < 2 || T > 8 || c.seq.empty()) { v.discard = true; return v; }
  // the shared container is built before any thread starts and only read afterwards
  ReuseableDataContainer64 shared;
  bool useShared = c.I("shared") != 0;
  if (useShared) shared.AddPaths(c.P("shared_paths"), PathType::Subject, false);
  std::vector<std::vector<const Case*>> perThread(T);
  for (auto& o : c.seq) perThread[(size_t)(o.I("thread") % T)].push_back(&o);
  // concurrent rounds
  std::vector<std::vector<std::vector<Timed>>> rounds;
  for (int round = 0; round < 3; ++round) {
    std::vector<std::vector<Timed>> got(T);
    std::atomic<int> ready{0};
    std::atomic<bool> go{false};
    std::vector<std::thread> th;
    for (int t = 0; t < T; ++t)
      th.emplace_back([&, t]() {
        ready.fetch_add(1);
        while (!go.load(std::memory_order_acquire)) std::this_thread::yield();
        for (auto* o : perThread[t]) {
          int64_t t0 = std::chrono::steady_clock::now().time_since_epoch().count();
          std::string dg = runOp(*o, useShared ? &shared : nullptr);
          int64_t t1 = std::chrono::steady_clock::now().time_since_epoch().count();
          got[t].push_back({dg, t0, t1, (int)o->I("op")});
        }
      });
    while (ready.load() < T) std::this_thread::yield();
    go.store(true, std::memory_order_release);
    for (auto& x : th) x.join();
    v.evals += c.seq.size();
    rounds.push_back(got);
  }
  // sequential reference (computed after the concurrent rounds so that it cannot warm any lazily initialised state)
  std::vector<std::vector<std::string>> ref(T);
  for (int t = 0; t < T; ++t) for (auto* o : perThread[t]) ref[t].push_back(runOp(*o, useShared ? &shared : nullptr));
  for (int round = 0; round < 3; ++round) {
    std::vector<std::vector<Timed>>& got = rounds[round];
    for (int t = 0; t < T; ++t)
      for (size_t k = 0; k < got[t].size(); ++k)
        if (got[t][k].digest != ref[t][k]) {
          v.fail(std::string("thread ") + std::to_string(t) + " operation " + std::to_string(k) + " (" + opName(got[t][k].op) + ") returned a different result when run concurrently (round " + std::to_string(round + 1) + ")");
          return v;
        }
    // overlap statistics: same entry point on two threads overlapping in time
    for (int t = 0; t < T && !v.nontrivial; ++t)
      for (int u = t + 1; u < T && !v.nontrivial; ++u)
        for (auto& x : got[t]) for (auto& y : got[u]) if (x.op == y.op && x.t0 < y.t1 && y.t0 < x.t1) v.nontrivial = true;
  }
  if (useShared) ST.count("with_shared_container");
  ST.count("threads_" + std::to_string(T));
  for (auto& o : c.seq) ST.count(std::string("op_") + opName((int)o.I("op")));
  return v;
}

Case gen() {
  Case c;
  int T = (int)G::range(2, 8);
  c.i["threads"] = T;
  c.i["shared"] = G::range(0, 1);
  int64_t M = G::oneOf(std::vector<int64_t>{50, 1000, 100000});
  { Paths64 sp; int n = (int)G::range(1, 3); for (int k = 0; k < n; ++k) sp.push_back(GEN::randomPath(3, 9, M)); c.p["shared_paths"] = sp; }
  // to make threads traverse the same entry points at the same time, each thread gets the same op kinds (own data)
  int nops = (int)G::range(3, 8);
  std::vector<int> kinds;
  for (int k = 0; k < nops; ++k) kinds.push_back((int)G::range(0, T_NOPS - 1));
  for (int t = 0; t < T; ++t)
    for (int k = 0; k < nops; ++k) {
      Case o;
      int kind = G::chance(80) ? kinds[k] : (int)G::range(0, T_NOPS - 1);
      if (kind == T_BoolShared && !c.i["shared"]) kind = T_Bool;
      o.i["op"] = kind; o.i["thread"] = t;
      Paths64 a, b;
      int na = (int)G::range(1, 3);
      for (int j = 0; j < na; ++j) a.push_back(GEN::randomPath(3, 10, M));
      b.push_back(GEN::randomPath(3, 8, M));
      o.p["a"] = a; o.p["b"] = b;
      o.i["ct"] = G::range(0, 3); o.i["fr"] = G::range(0, 3); o.i["pc"] = G::range(0, 1); o.i["jt"] = G::range(0, 3); o.i["et"] = G::range(0, 4); o.i["prec"] = G::range(0, 5);
      o.d["delta"] = G::real(-0.2, 0.3) * (double)M; o.d["ml"] = G::real(1, 4); o.d["at"] = G::coin() ? 0.0 : G::real(0.1, 2);
      int64_t x0 = G::sym(M), x1 = G::sym(M), y0 = G::sym(M), y1 = G::sym(M);
      o.i["l"] = std::min(x0, x1); o.i["r"] = std::max(x0, x1) + 1; o.i["t"] = std::min(y0, y1); o.i["b"] = std::max(y0, y1) + 1;
      c.seq.push_back(o);
    }
  return c;
}

}  // namespace

int main(int argc, char** argv) {
  Harness H;
  H.property = "C14";
  H.parts.push_back({"workloads", gen, judge, nullptr, true});
  return harnessMain(argc, argv, H);
}
