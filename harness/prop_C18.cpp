// C18 — geometric predicates are exact and measurements accurate.
#include "gen.hpp"
#include "shimconv.hpp"

namespace port {
void multiply(uint64_t a, uint64_t b, uint64_t& lo, uint64_t& hi);
bool productsAreEqual(int64_t a, int64_t b, int64_t c, int64_t d);
int crossProductSign(int64_t x1, int64_t y1, int64_t x2, int64_t y2, int64_t x3, int64_t y3);
bool isCollinear(int64_t x1, int64_t y1, int64_t x2, int64_t y2, int64_t x3, int64_t y3);
}

namespace {
typedef unsigned __int128 u128;

// boundary-biased 64-bit values
int64_t special(int64_t lim) {
  static const std::vector<int64_t> sp = {0, 1, -1, 2, -2, int64_t(1) << 31, -(int64_t(1) << 31), (int64_t(1) << 32) + 1, (int64_t(1) << 32) - 1,
                                          -(int64_t(1) << 32) - 1, int64_t(1) << 61, -(int64_t(1) << 61), (int64_t(1) << 62) - 1, -((int64_t(1) << 62) - 1), INT64_MAX, INT64_MIN + 1};
  int k = (int)G::range(0, 9);
  int64_t v;
  if (k <= 2) v = G::oneOf(sp);
  else { int bits = (int)G::range(1, 62); v = G::sym((int64_t(1) << bits) - 1 + (int64_t(1) << bits)); }
  if (v > lim) v = lim;
  if (v < -lim) v = -lim;
  return v;
}

// ---- part pred ---------------------------------------------------------------
Verdict judgePred(const Case& c) {
  Verdict v;
  const Path64& q = c.P("v").empty() ? Path64() : c.P("v")[0];
  if (q.size() < 4) { v.discard = true; return v; }
  // Multiply on all of uint64
  for (size_t i = 0; i + 1 < q.size(); ++i) {
    uint64_t a = (uint64_t)q[i].x ^ ((uint64_t)c.I("hi") << 63), b = (uint64_t)q[i].y;
    u128 want = (u128)a * b;
    auto r = Multiply(a, b);
    uint64_t plo, phi;
    port::multiply(a, b, plo, phi);
    v.evals += 2;
    if (r.lo != (uint64_t)want || r.hi != (uint64_t)(want >> 64)) { v.fail("Multiply(" + std::to_string(a) + "," + std::to_string(b) + ") wrong"); return v; }
    if (plo != (uint64_t)want || phi != (uint64_t)(want >> 64)) { v.fail("portable Multiply(" + std::to_string(a) + "," + std::to_string(b) + ") wrong"); return v; }
    if ((uint64_t)(want >> 64) != 0) v.nontrivial = true;
  }
  // ProductsAreEqual: random and constructed-equal quadruples (|values| < 2^63 so abs() is defined)
  for (size_t i = 0; i + 1 < q.size(); ++i) {
    int64_t a = q[i].x, b = q[i].y, cc = q[i + 1].x, d = q[i + 1].y;
    auto chk = [&](int64_t a, int64_t b, int64_t cc, int64_t d) {
      bool want = (i128)a * b == (i128)cc * d;
      v.evals += 2;
      if (ProductsAreEqual(a, b, cc, d) != want) { v.fail("ProductsAreEqual(" + std::to_string(a) + "," + std::to_string(b) + "," + std::to_string(cc) + "," + std::to_string(d) + ") wrong"); return false; }
      if (port::productsAreEqual(a, b, cc, d) != want) { v.fail("portable ProductsAreEqual(" + std::to_string(a) + "," + std::to_string(b) + "," + std::to_string(cc) + "," + std::to_string(d) + ") wrong"); return false; }
      return true;
    };
    if (!chk(a, b, cc, d) || !chk(a, b, b, a) || !chk(a, b, -a, -b) || !chk(a, b, -a, b) || !chk(a, 0, 0, d) || !chk(0, b, cc, 0)) return v;
    // a*b == (a*k)*(b/k) when k divides b
    int64_t k = (q[i + 1].x % 7) + 8;
    if (b % k == 0 && std::llabs(a) < (int64_t(1) << 58)) { if (!chk(a, b, a * k, b / k)) return v; }
    if (!chk(a, b, a + 1, b) || !chk(a, b, a, b - 1)) return v;
  }
  // CrossProductSign / IsCollinear: differences must not overflow -> coordinates within +-2^62
  const int64_t L = (int64_t(1) << 62) - 1;
  auto clampP = [&](Point64 p) { return Point64(std::max(-L, std::min(L, p.x)), std::max(-L, std::min(L, p.y))); };
  for (size_t i = 0; i + 2 < q.size(); ++i) {
    Point64 p1 = clampP(q[i]), p2 = clampP(q[i + 1]), p3 = clampP(q[i + 2]);
    auto chk = [&](const Point64& p1, const Point64& p2, const Point64& p3) {
      i128 a = (i128)p2.x - p1.x, b = (i128)p3.y - p2.y, cc = (i128)p2.y - p1.y, d = (i128)p3.x - p2.x;
      // differences must fit int64 (the stated precondition)
      if (a > INT64_MAX || a < -INT64_MAX || b > INT64_MAX || b < -INT64_MAX || cc > INT64_MAX || cc < -INT64_MAX || d > INT64_MAX || d < -INT64_MAX) return true;
      // compare a*b with c*d without overflowing i128: magnitudes < 2^63 each -> products < 2^126
      i128 ab = a * b, cd = cc * d;
      int want = ab > cd ? 1 : ab < cd ? -1 : 0;
      v.evals += 4;
      if (ab >= ((i128)1 << 64) || ab <= -((i128)1 << 64)) v.nontrivial = true;
      std::string at = " for " + O::ptStr(p1) + O::ptStr(p2) + O::ptStr(p3);
      if (CrossProductSign(p1, p2, p3) != want) { v.fail("CrossProductSign wrong" + at); return false; }
      if (port::crossProductSign(p1.x, p1.y, p2.x, p2.y, p3.x, p3.y) != want) { v.fail("portable CrossProductSign wrong" + at); return false; }
      if (IsCollinear(p1, p2, p3) != (want == 0)) { v.fail("IsCollinear wrong" + at); return false; }
      if (port::isCollinear(p1.x, p1.y, p2.x, p2.y, p3.x, p3.y) != (want == 0)) { v.fail("portable IsCollinear wrong" + at); return false; }
      return true;
    };
    if (!chk(p1, p2, p3) || !chk(p3, p2, p1) || !chk(p1, p1, p3) || !chk(p1, p2, p2)) return v;
    // exactly collinear triple p, p + k d, p + m d and the same off by one unit
    int64_t dx = q[i + 1].x % (int64_t(1) << 29), dy = q[i + 1].y % (int64_t(1) << 29);
    int64_t k = (q[i + 2].x % 1000), m = (q[i + 2].y % 100000);
    Point64 b0(std::max(-(int64_t(1) << 60), std::min(int64_t(1) << 60, p1.x)), std::max(-(int64_t(1) << 60), std::min(int64_t(1) << 60, p1.y)));
    Point64 s(b0.x + k * dx, b0.y + k * dy), t(b0.x + m * dx, b0.y + m * dy);
    if (!chk(b0, s, t) || !chk(b0, s, Point64(t.x + 1, t.y)) || !chk(b0, s, Point64(t.x, t.y - 1)) || !chk(s, b0, t)) return v;
  }
  return v;
}
Case genPred() {
  Case c;
  Path64 p;
  int n = (int)G::range(4, 8);
  for (int k = 0; k < n; ++k) p.emplace_back(special(INT64_MAX), special(INT64_MAX));
  c.p["v"] = {p};
  c.i["hi"] = G::range(0, 1);
  return c;
}

// ---- part pip -----------------------------------------------------------------
Verdict judgePip(const Case& c) {
  Verdict v;
  const Paths64& pp = c.P("poly");
  const Paths64& qs = c.P("queries");
  if (pp.empty() || qs.empty() || pp[0].size() < 3) { v.discard = true; return v; }
  const Path64& poly = pp[0];
  if (O::maxAbs(pp) > (1 << 25) || O::maxAbs(qs) > (1 << 25)) { v.discard = true; return v; }
  bool flat = true;
  for (auto& q : poly) if (q.y != poly[0].y) flat = false;
  if (flat) { v.discard = true; return v; }
  for (auto& pt : qs[0]) {
    O::Wn w = O::winding(pt, poly);
    // even-odd: crossing parity == winding parity for a single closed path
    int crossings = 0;
    size_t n = poly.size();
    for (size_t i = 0; i < n; ++i) {
      const Point64 &a = poly[i], &b = poly[(i + 1) % n];
      if ((a.y <= pt.y) != (b.y <= pt.y)) {
        // x of the edge at pt.y compared exactly: sign of cross tells the side
        i128 cr = O::cross(a, b, pt);
        bool up = b.y > a.y;
        if ((up && cr > 0) || (!up && cr < 0)) ++crossings;
      }
    }
    PointInPolygonResult want = w.on ? PointInPolygonResult::IsOn : (crossings & 1) ? PointInPolygonResult::IsInside : PointInPolygonResult::IsOutside;
    PointInPolygonResult got = PointInPolygon(pt, poly);
    v.evals++;
    if (w.on) v.nontrivial = true;
    for (auto& q : poly) if (q.y == pt.y) v.nontrivial = true;
    if (got != want) {
      static const char* nm[] = {"IsOn", "IsInside", "IsOutside"};
      v.fail("PointInPolygon(" + O::ptStr(pt) + ") = " + nm[(int)got] + ", exact even-odd classification " + nm[(int)want]);
      return v;
    }
  }
  return v;
}
Case genPip() {
  Case c;
  int64_t M = G::oneOf(std::vector<int64_t>{4, 8, 30, 1000, 1 << 25});
  int kind = (int)G::range(0, 2);
  Path64 poly;
  if (kind == 0) poly = GEN::randomPath(3, 10, M);
  else if (kind == 1) { GEN::Lattice L{std::min<int64_t>(M, 6), std::max<int64_t>(1, M / 6), -M / 2, -M / 2}; poly = GEN::rectWalk(L); }
  else { GEN::DegPool pool; poly = GEN::degPath(10, M, pool); }
  c.p["poly"] = {poly};
  Path64 qs;
  int nq = (int)G::range(4, 12);
  for (int k = 0; k < nq; ++k) {
    int how = (int)G::range(0, 5);
    if (poly.empty() || how == 0) qs.emplace_back(G::sym(M), G::sym(M));
    else if (how == 1) qs.push_back(G::oneOf(poly));                                           // on a vertex
    else if (how == 2) qs.emplace_back(G::sym(M), G::oneOf(poly).y);                            // level with a vertex
    else if (how == 3) { const Point64& a = poly[G::pick(poly.size())]; const Point64& b = poly[G::pick(poly.size())]; qs.emplace_back((a.x + b.x) / 2, (a.y + b.y) / 2); }  // often on an edge
    else if (how == 4) qs.emplace_back(G::oneOf(poly).x, G::sym(M));
    else { const Point64& a = G::oneOf(poly); qs.emplace_back(a.x + G::sym(1), a.y + G::sym(1)); }
  }
  c.p["queries"] = {qs};
  return c;
}

// ---- part segint ----------------------------------------------------------------
Verdict judgeSeg(const Case& c) {
  Verdict v;
  const Paths64& pp = c.P("segs");
  if (pp.empty() || pp[0].size() != 4) { v.discard = true; return v; }
  const Point64 &a = pp[0][0], &b = pp[0][1], &cc = pp[0][2], &d = pp[0][3];
  int64_t m = O::maxAbs(pp);
  if (m > (int64_t(1) << 40) || a == b || cc == d) { v.discard = true; return v; }
  i128 det = ((i128)b.x - a.x) * ((i128)d.y - cc.y) - ((i128)b.y - a.y) * ((i128)d.x - cc.x);
  bool parallel = det == 0;
  // conditioning: K = max|coord| * |d1| * |d2| / |d1 x d2|
  ld l1 = hypotl((ld)b.x - a.x, (ld)b.y - a.y), l2 = hypotl((ld)d.x - cc.x, (ld)d.y - cc.y);
  ld K = parallel ? 0 : (ld)std::max<int64_t>(m, 1) * l1 * l2 / fabsl((ld)det);
  for (int variant = 0; variant < 2; ++variant) {
    Point64 ip(0, 0);
    bool ok;
    if (variant == 0) ok = GetSegmentIntersectPt(a, b, cc, d, ip);
    else { shim::Pt r{0, 0, 0}; ok = shim_hp::segIntersect({a.x, a.y, 0}, {b.x, b.y, 0}, {cc.x, cc.y, 0}, {d.x, d.y, 0}, r); ip = Point64(r.x, r.y); }
    v.evals++;
    std::string at = std::string(variant ? " [HI_PRECISION]" : "") + " for " + O::ptStr(a) + O::ptStr(b) + " x " + O::ptStr(cc) + O::ptStr(d);
    if (parallel) {
      if (ok) { v.fail("exactly parallel segments not reported as parallel" + at); return v; }
      continue;
    }
    if (!ok) {
      // not parallel but reported so: only acceptable in the ill-conditioned class
      if (K >= ldexpl(1.0L, 50)) { v.known = "KF-C18-a"; ST.count("illconditioned_reported_parallel"); continue; }
      v.fail("non-parallel segments reported as parallel" + at);
      return v;
    }
    if (!O::properCross(a, b, cc, d)) continue;  // the accuracy clause is for properly crossing segments
    v.nontrivial = true;
    ld x, y;
    O::crossPoint(a, b, cc, d, x, y);
    ld ex = fabsl((ld)ip.x - x), ey = fabsl((ld)ip.y - y);
    // "a point on the first segment within one unit per axis of the true crossing": the per-axis bound is the
    // claim (it implies a distance < sqrt(2) to segment 1, on which the true crossing lies)
    ld err = std::max(ex, ey);
    if (err <= 1.0L) continue;
    if (K >= ldexpl(1.0L, 46)) { v.known = "KF-C18-a"; ST.count("illconditioned_error_above_1"); continue; }
    if (err <= 1.0L + ldexpl(1.0L, -7) + (ld)m * ldexpl(1.0L, -48)) { v.known = "KF-C18-b"; ST.count("truncation_marginally_above_1"); continue; }
    char buf[200];
    snprintf(buf, sizeof buf, "returned point %s is %.4Lf units (per-axis) from the true crossing (%.3Lf,%.3Lf), conditioning 2^%.1Lf", O::ptStr(ip).c_str(), err, x, y, log2l(K));
    v.fail(buf + at);
    return v;
  }
  return v;
}
Case genSeg() {
  Case c;
  int64_t M = G::oneOf(std::vector<int64_t>{10, 1000, 1 << 20, int64_t(1) << 30, int64_t(1) << 40});
  Point64 a(G::sym(M), G::sym(M)), b(G::sym(M), G::sym(M)), cc(G::sym(M), G::sym(M)), d(G::sym(M), G::sym(M));
  int kind = (int)G::range(0, 5);
  if (kind == 0) {                     // exactly parallel
    int64_t k = G::range(-3, 3);
    if (k == 0) k = 1;
    i128 dx = (i128)(b.x - a.x) / 4, dy = (i128)(b.y - a.y) / 4;
    d = Point64((int64_t)std::max<i128>(-M, std::min<i128>(M, cc.x + k * dx)), (int64_t)std::max<i128>(-M, std::min<i128>(M, cc.y + k * dy)));
    if ((i128)(d.x - cc.x) * (b.y - a.y) != (i128)(d.y - cc.y) * (b.x - a.x)) { cc = Point64(a.x + 1, a.y + 1); d = Point64(b.x + 1, b.y + 1); if (std::abs(d.x) > M || std::abs(d.y) > M) { cc = a; d = b; } }
  } else if (kind == 1) cc = a;        // sharing an end point
  else if (kind == 2) {                // proper crossing by construction: c,d on opposite sides around a point of ab
    cc = Point64(a.x + (b.x - a.x) / 3 + G::sym(M / 4 + 1), a.y + (b.y - a.y) / 3 + G::sym(M / 4 + 1));
    d = Point64(2 * (a.x + (b.x - a.x) / 2) - cc.x, 2 * (a.y + (b.y - a.y) / 2) - cc.y);
    auto cl = [&](int64_t v) { return std::max(-M, std::min(M, v)); };
    cc = Point64(cl(cc.x), cl(cc.y)); d = Point64(cl(d.x), cl(d.y));
  }
  c.p["segs"] = {{a, b, cc, d}};
  return c;
}

// ---- part area --------------------------------------------------------------------
Verdict judgeArea(const Case& c) {
  Verdict v;
  const Paths64& pp = c.P("poly");
  if (pp.empty()) { v.discard = true; return v; }
  const Path64& p = pp[0];
  if (O::maxAbs(pp) > (int64_t(1) << 40)) { v.discard = true; return v; }
  double got = Area(p);
  v.evals = 1;
  size_t n = p.size();
  if (n < 3) { if (got != 0.0) v.fail("Area of a path with fewer than 3 points is not 0"); return v; }
  i128 a2 = O::area2(p);
  ld S = 0;  // sum of |terms| of the library's formula (y1+y2)(x1-x2)
  for (size_t i = 0; i < n; ++i) { const Point64 &u = p[(i + n - 1) % n], &w = p[i]; S += fabsl(((ld)u.y + w.y) * ((ld)u.x - w.x)); }
  ld exact = (ld)a2 / 2;
  ld tol = (ld)(n + 2) * ldexpl(1.0L, -52) * S / 2 + fabsl(exact) * ldexpl(1.0L, -52);
  if (fabsl((ld)got - exact) > tol) {
    char buf[200];
    snprintf(buf, sizeof buf, "Area = %.17g, exact shoelace %.6Lf, allowed rounding %.6Lg", got, exact, tol);
    v.fail(buf);
  }
  v.nontrivial = a2 != 0;
  return v;
}
Case genArea() {
  Case c;
  int64_t M = G::oneOf(std::vector<int64_t>{10, 1000, 1 << 26, int64_t(1) << 40});
  GEN::DegPool pool;
  c.p["poly"] = {G::coin() ? GEN::randomPath(0, 12, M) : GEN::degPath(12, M, pool)};
  return c;
}

}  // namespace

int main(int argc, char** argv) {
  Harness H;
  H.property = "C18";
  H.parts.push_back({"pred", genPred, judgePred, nullptr, false});
  H.parts.push_back({"pip", genPip, judgePip, nullptr, false});
  H.parts.push_back({"segint", genSeg, judgeSeg, nullptr, false});
  H.parts.push_back({"area", genArea, judgeArea, nullptr, false});
  return harnessMain(argc, argv, H);
}
