// C20 — path utilities keep their contracts.
#include "gen.hpp"

namespace {

// greedy in-order subsequence test with multiplicity
template <class P>
bool isSubsequence(const std::vector<P>& sub, const std::vector<P>& full) {
  size_t j = 0;
  for (auto& q : sub) {
    while (j < full.size() && !(full[j] == q)) ++j;
    if (j == full.size()) return false;
    ++j;
  }
  return true;
}
// perpendicular distance (squared) from p to the line a-b; to the point when a == b
ld perpDist(const Point64& p, const Point64& a, const Point64& b) {
  if (a == b) return hypotl((ld)p.x - a.x, (ld)p.y - a.y);
  i128 cr = O::cross(a, b, p);
  if (cr < 0) cr = -cr;
  return (ld)cr / sqrtl((ld)O::dot(a, b, b));
}
std::string pathStr(const Path64& p) { std::string s; for (auto& q : p) s += O::ptStr(q); return s; }

bool hasRepeatOrReversal(const Path64& p, bool closed) {
  size_t n = p.size();
  for (size_t i = 0; i < n; ++i) for (size_t j = i + 1; j < n; ++j) if (p[i] == p[j]) return true;
  for (size_t k = 0; k < n; ++k) {
    if (!closed && (k == 0 || k == n - 1)) continue;
    const Point64 &a = p[(k + n - 1) % n], &b = p[k], &c = p[(k + 1) % n];
    if (O::cross(a, b, c) == 0 && O::dot(b, a, c) > 0) return true;
  }
  return false;
}

// Route to the utility (per case): 0 the Path64 function, 1 the PathD overload on the same (integer-valued) input, 2 the
// Paths64 wrapper where there is one.  The same clauses are applied to whatever the route returns.
PathD toPathD(const Path64& p) { PathD r; for (auto& q : p) r.emplace_back((double)q.x, (double)q.y); return r; }
Path64 fromPathD(const PathD& p) { Path64 r; for (auto& q : p) r.emplace_back((int64_t)std::llround(q.x), (int64_t)std::llround(q.y)); return r; }
int routeOf(const Case& c) { int r = (int)c.I("droute", 0); if (r) ST.count("route_" + std::string(r == 1 ? "PathD_overload" : "Paths_wrapper")); return r; }

Verdict judgeTrim(const Case& c) {
  Verdict v;
  if (c.P("path").empty()) { v.discard = true; return v; }
  const Path64& p = c.P("path")[0];
  bool open = c.I("open") != 0;
  if (O::maxAbs(c.P("path")) > (int64_t(1) << 40)) { v.discard = true; return v; }
  int route = routeOf(c);
  Path64 r = route == 1 ? fromPathD(TrimCollinear(toPathD(p), (int)c.I("dprec", 2), open)) : TrimCollinear(p, open);
  v.evals = 1;
  std::string at = std::string(open ? " [open] " : " [closed] ") + pathStr(p) + " -> " + pathStr(r);
  if (!isSubsequence(r, p)) { v.fail("TrimCollinear result is not a subsequence of the input" + at); return v; }
  if (open && p.size() >= 2 && !(p.size() == 2 && p[0] == p[1])) {
    bool allSame = true;
    for (auto& q : p) if (!(q == p[0])) allSame = false;
    if (!allSame && (r.empty() || !(r.front() == p.front()) || !(r.back() == p.back()))) { v.fail("TrimCollinear dropped an end point of an open path" + at); return v; }
  }
  if (!open) {
    if (O::area2(r) != O::area2(p)) { v.fail("TrimCollinear changed the signed area of a closed path" + at); return v; }
    if (p.size() >= 3 && !hasRepeatOrReversal(p, true)) {
      // exactly the corner vertices
      Path64 want;
      size_t n = p.size();
      for (size_t k = 0; k < n; ++k) if (O::cross(p[(k + n - 1) % n], p[k], p[(k + 1) % n]) != 0) want.push_back(p[k]);
      if (want.size() < 3) want.clear();
      if (r != want) { v.fail("TrimCollinear did not return exactly the corner vertices (expected " + pathStr(want) + ")" + at); return v; }
      for (size_t k = 0; k < r.size(); ++k) if (O::cross(r[(k + r.size() - 1) % r.size()], r[k], r[(k + 1) % r.size()]) == 0) { v.fail("three consecutive collinear vertices remain" + at); return v; }
      if (TrimCollinear(r, false) != r) { v.fail("TrimCollinear is not idempotent" + at); return v; }
      ST.count("exact_corner_clause_checked");
    }
  } else if (p.size() >= 3 && !hasRepeatOrReversal(p, false)) {
    Path64 want = {p[0]};
    for (size_t k = 1; k + 1 < p.size(); ++k) if (O::cross(p[k - 1], p[k], p[k + 1]) != 0) want.push_back(p[k]);
    want.push_back(p.back());
    if (r != want) { v.fail("TrimCollinear (open) did not return exactly the end points and corner vertices" + at); return v; }
    if (TrimCollinear(r, true) != r) { v.fail("TrimCollinear (open) is not idempotent" + at); return v; }
  }
  v.nontrivial = p.size() >= 4 && r.size() < p.size() && !r.empty();
  return v;
}

Verdict judgeSimplify(const Case& c) {
  Verdict v;
  if (c.P("path").empty()) { v.discard = true; return v; }
  const Path64& p = c.P("path")[0];
  bool closed = c.I("open") == 0;
  double eps = c.D("eps");
  if (eps < 0 || O::maxAbs(c.P("path")) > (int64_t(1) << 30)) { v.discard = true; return v; }
  int route = routeOf(c);
  Path64 r = route == 1 ? fromPathD(SimplifyPath(toPathD(p), eps, closed)) : route == 2 ? SimplifyPaths(Paths64{p}, eps, closed)[0] : SimplifyPath(p, eps, closed);
  v.evals = 1;
  char eb[40];
  snprintf(eb, sizeof eb, " eps=%g", eps);
  std::string at = std::string(closed ? " [closed]" : " [open]") + eb + " " + pathStr(p) + " -> " + pathStr(r);
  if (!isSubsequence(r, p)) { v.fail("SimplifyPath result is not a subsequence of the input" + at); return v; }
  if (!closed && !p.empty() && (r.empty() || !(r.front() == p.front()) || !(r.back() == p.back()))) { v.fail("SimplifyPath dropped an end point of an open path" + at); return v; }
  if (p.size() < 4) { v.known = "KF-C20-b"; if (r != p) v.fail("SimplifyPath changed a path of fewer than 4 points" + at); return v; }
  // no removable vertex left
  size_t n = r.size();
  if (n >= 3) {
    for (size_t k = 0; k < n; ++k) {
      if (!closed && (k == 0 || k == n - 1)) continue;
      ld d = perpDist(r[k], r[(k + n - 1) % n], r[(k + 1) % n]);
      if (r[(k + n - 1) % n] == r[(k + 1) % n]) d = 0;   // the library measures 0 against a degenerate line
      if (d <= (ld)eps * (1 - 1e-9L)) {
        char b2[80];
        snprintf(b2, sizeof b2, "%.6Lf", d);
        v.fail("SimplifyPath left a removable vertex " + O::ptStr(r[k]) + " at distance " + b2 + at);
        return v;
      }
    }
  }
  v.nontrivial = r.size() < p.size() && r.size() >= 2;
  return v;
}

Verdict judgeRdp(const Case& c) {
  Verdict v;
  if (c.P("path").empty()) { v.discard = true; return v; }
  const Path64& p = c.P("path")[0];
  double eps = c.D("eps");
  if (eps < 0 || O::maxAbs(c.P("path")) > (int64_t(1) << 30)) { v.discard = true; return v; }
  int route = routeOf(c);
  Path64 r = route == 1 ? fromPathD(RamerDouglasPeucker(toPathD(p), eps)) : route == 2 ? RamerDouglasPeucker(Paths64{p}, eps)[0] : RamerDouglasPeucker(p, eps);
  v.evals = 1;
  char eb[40];
  snprintf(eb, sizeof eb, " eps=%g", eps);
  std::string at = std::string(eb) + " " + pathStr(p) + " -> " + pathStr(r);
  if (!isSubsequence(r, p)) { v.fail("RamerDouglasPeucker result is not a subsequence of the input" + at); return v; }
  if (!p.empty() && (r.empty() || !(r.front() == p.front()) || !(r.back() == p.back()))) { v.fail("RamerDouglasPeucker dropped an end point" + at); return v; }
  // every removed vertex within eps of the line through its two surviving neighbours.  With repeated points the
  // embedding of the result in the input is ambiguous: accept if SOME embedding (first -> first, last -> last)
  // satisfies the clause (dynamic programme over embeddings).
  {
    size_t n = p.size(), m = r.size();
    auto gapOk = [&](size_t i0, size_t i1) {
      for (size_t i = i0 + 1; i < i1; ++i) {
        if (p[i] == p[i0] || p[i] == p[i1]) continue;
        if (perpDist(p[i], p[i0], p[i1]) > (ld)eps * (1 + 1e-9L) + 1e-9L) return false;
      }
      return true;
    };
    if (m >= 1 && n >= 1) {
      std::vector<std::vector<char>> dp(m, std::vector<char>(n, 0));
      dp[0][0] = 1;
      for (size_t j = 1; j < m; ++j)
        for (size_t i = j; i < n; ++i) {
          if (!(p[i] == r[j])) continue;
          for (size_t i0 = j - 1; i0 < i; ++i0) if (dp[j - 1][i0] && gapOk(i0, i)) { dp[j][i] = 1; break; }
        }
      if (!(m == 1 ? n == 1 : dp[m - 1][n - 1])) {
        v.fail("some removed vertex is farther than epsilon from the line through its surviving neighbours (no embedding of the result satisfies the clause)" + at);
        return v;
      }
    }
  }
  v.nontrivial = p.size() >= 5 && r.size() < p.size() && r.size() > 2;
  bool loop = p.size() >= 5 && p.front() == p.back();
  if (loop) ST.count("first_equals_last");
  return v;
}

Verdict judgeMisc(const Case& c) {
  Verdict v;
  if (c.P("path").empty()) { v.discard = true; return v; }
  const Path64& p = c.P("path")[0];
  bool closed = c.I("open") == 0;
  if (O::maxAbs(c.P("path")) > (int64_t(1) << 40)) { v.discard = true; return v; }
  // StripDuplicates
  {
    Path64 r = p, want;
    StripDuplicates(r, closed);
    for (auto& q : p) if (want.empty() || !(want.back() == q)) want.push_back(q);
    if (closed) while (want.size() > 1 && want.back() == want.front()) want.pop_back();
    if (r != want) { v.fail("StripDuplicates: " + pathStr(p) + " -> " + pathStr(r)); return v; }
  }
  // StripNearEqual
  {
    double thr = c.D("thr");
    Path64 r = StripNearEqual(p, thr, closed), want;
    for (auto& q : p) {
      if (want.empty()) { want.push_back(q); continue; }
      ld d2 = ((ld)q.x - want.back().x) * ((ld)q.x - want.back().x) + ((ld)q.y - want.back().y) * ((ld)q.y - want.back().y);
      if (!(d2 < (ld)thr)) want.push_back(q);
    }
    if (closed && !p.empty()) while (want.size() > 1) { ld d2 = ((ld)want.back().x - p[0].x) * ((ld)want.back().x - p[0].x) + ((ld)want.back().y - p[0].y) * ((ld)want.back().y - p[0].y); if (d2 < (ld)thr) want.pop_back(); else break; }
    // squared distances of integers below 2^40 are exact in long double but rounded in double: skip knife-edge cases
    bool knife = false;
    for (size_t i = 0; i < p.size() && !knife; ++i) for (size_t j = 0; j < p.size(); ++j) { ld d2 = ((ld)p[i].x - p[j].x) * ((ld)p[i].x - p[j].x) + ((ld)p[i].y - p[j].y) * ((ld)p[i].y - p[j].y); if (fabsl(d2 - (ld)thr) <= 1e-9L * fabsl(d2) && d2 > 0) { knife = true; break; } }
    if (!knife && r != want) { v.fail("StripNearEqual: " + pathStr(p) + " -> " + pathStr(r) + " expected " + pathStr(want)); return v; }
  }
  // TranslatePath
  {
    int64_t dx = c.I("dx"), dy = c.I("dy");
    Path64 r = TranslatePath(p, dx, dy);
    if (r.size() != p.size()) { v.fail("TranslatePath changed the number of points"); return v; }
    for (size_t k = 0; k < p.size(); ++k) if (r[k].x != p[k].x + dx || r[k].y != p[k].y + dy) { v.fail("TranslatePath wrong at index " + std::to_string(k)); return v; }
    // the Paths and the PathD forms obey the same equation
    Paths64 rr = TranslatePaths(Paths64{p, Path64{Point64(1, 2)}, Path64()}, dx, dy);
    if (rr.size() != 3 || rr[0] != r || rr[1] != Path64{Point64(1 + dx, 2 + dy)} || !rr[2].empty()) { v.fail("TranslatePaths differs from TranslatePath applied to each path"); return v; }
    if (std::llabs(dx) < (int64_t(1) << 50) && std::llabs(dy) < (int64_t(1) << 50)) {
      PathD pd; for (auto& q : p) pd.emplace_back((double)(q.x % (int64_t(1) << 50)), (double)(q.y % (int64_t(1) << 50)));
      PathD rd = TranslatePath(pd, (double)dx, (double)dy);
      if (rd.size() != pd.size()) { v.fail("TranslatePath(PathD) changed the number of points"); return v; }
      for (size_t k = 0; k < pd.size(); ++k) if (rd[k].x != pd[k].x + (double)dx || rd[k].y != pd[k].y + (double)dy) { v.fail("TranslatePath(PathD) wrong at index " + std::to_string(k)); return v; }
    }
  }
  // Length, GetBounds
  {
    ld want = 0;
    for (size_t k = 0; k + 1 < p.size(); ++k) want += hypotl((ld)p[k + 1].x - p[k].x, (ld)p[k + 1].y - p[k].y);
    if (closed && p.size() >= 2) want += hypotl((ld)p[0].x - p.back().x, (ld)p[0].y - p.back().y);
    double got = Length(p, closed);
    if (fabsl((ld)got - want) > 1e-12L * std::max<ld>(1, want)) { v.fail("Length wrong for " + pathStr(p)); return v; }
    if (!p.empty()) {
      Rect64 bb = GetBounds(p);
      int64_t l = INT64_MAX, t = INT64_MAX, r2 = INT64_MIN, b = INT64_MIN;
      for (auto& q : p) { l = std::min(l, q.x); r2 = std::max(r2, q.x); t = std::min(t, q.y); b = std::max(b, q.y); }
      if (bb.left != l || bb.right != r2 || bb.top != t || bb.bottom != b) { v.fail("GetBounds wrong for " + pathStr(p)); return v; }
      Rect64 bbs = GetBounds(Paths64{p, Path64{Point64(c.I("dx"), c.I("dy"))}});
      if (bbs.left != std::min(l, c.I("dx")) || bbs.right != std::max(r2, c.I("dx")) || bbs.top != std::min(t, c.I("dy")) || bbs.bottom != std::max(b, c.I("dy"))) { v.fail("GetBounds(Paths64) wrong"); return v; }
    }
  }
  // Ellipse
  {
    double rx = c.D("rx"), ry = c.D("ry");
    size_t steps = (size_t)c.I("steps");
    Point64 ctr(c.I("dx") % 100000, c.I("dy") % 100000);
    Path64 e = Ellipse(ctr, rx, ry, steps);
    if (rx <= 0) { if (!e.empty()) { v.fail("Ellipse with radius <= 0 is not empty"); return v; } }
    else {
      double ryy = ry <= 0 ? rx : ry;
      size_t want = steps <= 2 ? (size_t)(3.141592653589793238 * std::sqrt((rx + ryy) / 2)) : steps;
      // for radii below ~1 the default step formula yields fewer than 3 steps and the function returns a stub
      // (a single point): the count clause is only meaningful for an actual polygon
      if (want >= 3 && e.size() != want) { v.fail("Ellipse vertex count " + std::to_string(e.size()) + ", expected " + std::to_string(want)); return v; }
      for (auto& q : e) {
        ld nx = ((ld)q.x - ctr.x) / rx, ny = ((ld)q.y - ctr.y) / ryy;
        ld rad = hypotl(nx, ny);
        // within one unit of the ellipse: |rad - 1| * min radius <= ~1.5 (truncation per axis)
        if (fabsl(rad - 1) * std::min(rx, ryy) > 1.5L) { v.fail("Ellipse vertex " + O::ptStr(q) + " is not on the ellipse"); return v; }
      }
    }
  }
  v.evals = 6;
  v.nontrivial = p.size() >= 3;
  return v;
}

Case genPath() {
  Case c;
  int64_t M = G::oneOf(std::vector<int64_t>{3, 8, 50, 1000, 1 << 20, int64_t(1) << 30, int64_t(1) << 30, int64_t(1) << 34, int64_t(1) << 39});   // (squares of differences leave 64 bits above 2^31.5)
  int kind = (int)G::range(0, 3);
  GEN::DegPool pool;
  Path64 p;
  if (kind == 0) p = GEN::degPath(12, M, pool);
  else if (kind == 1) { p = GEN::randomPath(0, 12, M); if (G::chance(3)) { p = GEN::randomPath(60, 200, M); ST.count("large_path_60_to_200_points"); } }
  else if (kind == 2) {   // all collinear / runs of collinear points
    Point64 a(G::sym(M), G::sym(M));
    int64_t dx = G::sym(5), dy = G::sym(5);
    int n = (int)G::range(0, 10);
    for (int k = 0; k < n; ++k) { int64_t t = G::sym(6); p.emplace_back(a.x + t * dx, a.y + t * dy); if (G::chance(20)) p.push_back(GEN::degPoint(M, pool)); }
  } else {                // closed loop given with its start repeated at the end
    p = GEN::randomPath(3, 9, M);
    if (!p.empty()) { p.push_back(p[0]); if (G::coin()) p.push_back(p[0]); }
  }
  bool comb = G::chance(1);
  if (comb) {
    // structured worst cases for the divide-and-conquer simplifiers: a comb of 20-120 teeth along a line whose heights
    // grow, shrink or alternate (the farthest vertex then sits next to an end of the range again and again: deep,
    // lopsided recursion over hundreds of vertices); epsilon is small against the teeth
    p.clear();
    int teeth = (int)G::range(20, 120), mode = (int)G::range(0, 3);
    int64_t pitch = G::range(12, 40), hstep = G::range(3, 25);
    bool alongY = G::coin();
    auto put = [&](int64_t u, int64_t w) { p.push_back(alongY ? Point64(w, u) : Point64(u, w)); };
    put(0, 0);
    for (int k = 1; k <= teeth; ++k) {
      int64_t h = mode == 0 ? hstep * k : mode == 1 ? hstep * (teeth + 1 - k) : mode == 2 ? hstep * (k % 2 ? k : teeth + 1 - k) : hstep * (1 + (k * 7) % 13);
      put(pitch * k, h); put(pitch * k + pitch / 3, 0); put(pitch * k + 2 * pitch / 3, 0);
    }
    if (G::coin()) std::reverse(p.begin(), p.end());
    ST.count("comb_path_60_to_360_points");
  }
  bool stairs = !comb && G::chance(3);
  if (stairs) {
    // exact coincidences: vertices on a horizontal / vertical / diagonal base line with integer bumps of height 0..3 and
    // an integer epsilon 0..3, so that distances from a chord are exactly 0 or exactly epsilon
    p.clear();
    int n = (int)G::range(3, 9), dirk = (int)G::range(0, 2);
    int64_t ox = G::sym(M), oy = G::sym(M), step = G::range(2, 12);
    for (int k = 0; k < n; ++k) {
      int64_t u = step * k, w = G::chance(55) ? 0 : G::range(-3, 3);
      p.push_back(dirk == 0 ? Point64(ox + u, oy + w) : dirk == 1 ? Point64(ox + w, oy + u) : Point64(ox + u + w, oy + u - w));
    }
    if (G::coin()) p.emplace_back(ox - G::range(1, 20), oy + G::range(5, 40));   // a corner that closes the shape
    ST.count("stairs_exact_distances");
  }
  c.p["path"] = {p};
  c.i["open"] = G::range(0, 1);
  c.i["droute"] = G::chance(60) ? 0 : G::range(1, 2);
  c.i["dprec"] = G::range(0, 3);
  double feat = (double)std::max<int64_t>(M, 1);
  int ek = (int)G::range(0, 3);
  c.d["eps"] = ek == 0 ? 0.0 : ek == 1 ? G::real(0, 2) : ek == 2 ? G::real(0, feat) : feat * 1000;
  if (comb) { c.d["eps"] = G::real(0.5, 3.0); c.i["open"] = G::chance(80); }
  if (stairs) c.d["eps"] = (double)G::range(0, 3);
  c.d["thr"] = G::chance(30) ? 0.0 : G::real(0, 4) * G::real(0, feat);
  c.i["dx"] = G::sym(int64_t(1) << 40); c.i["dy"] = G::sym(int64_t(1) << 40);
  c.d["rx"] = G::chance(15) ? G::real(-5, 0) : G::real(0.1, 5000);
  c.d["ry"] = G::chance(30) ? 0.0 : G::real(0.1, 5000);
  c.i["steps"] = G::chance(50) ? 0 : G::range(0, 200);
  return c;
}

}  // namespace

int main(int argc, char** argv) {
  Harness H;
  H.property = "C20";
  H.parts.push_back({"trim", genPath, judgeTrim, nullptr, false});
  H.parts.push_back({"simplify", genPath, judgeSimplify, nullptr, false});
  H.parts.push_back({"rdp", genPath, judgeRdp, nullptr, false});
  H.parts.push_back({"misc", genPath, judgeMisc, nullptr, false});
  return harnessMain(argc, argv, H);
}
