// Minimal JSON value, writer and parser (enough for case files and stats).
#pragma once
#include <cstdint>
#include <cstdio>
#include <cstdlib>
#include <cstring>
#include <map>
#include <memory>
#include <stdexcept>
#include <string>
#include <vector>

namespace js {

struct Value;
using Array = std::vector<Value>;
using Object = std::vector<std::pair<std::string, Value>>;  // keeps insertion order

struct Value {
  enum Kind { Null, Bool, Int, Dbl, Str, Arr, Obj } kind = Null;
  bool b = false;
  int64_t i = 0;
  double d = 0;
  std::string s;
  Array a;
  Object o;
  Value() {}
  Value(bool v) : kind(Bool), b(v) {}
  Value(int v) : kind(Int), i(v) {}
  Value(long v) : kind(Int), i(v) {}
  Value(long long v) : kind(Int), i(v) {}
  Value(unsigned long v) : kind(Int), i((int64_t)v) {}
  Value(unsigned long long v) : kind(Int), i((int64_t)v) {}
  Value(unsigned v) : kind(Int), i(v) {}
  Value(double v) : kind(Dbl), d(v) {}
  Value(const char* v) : kind(Str), s(v) {}
  Value(const std::string& v) : kind(Str), s(v) {}
  static Value array() { Value v; v.kind = Arr; return v; }
  static Value object() { Value v; v.kind = Obj; return v; }
  Value& push(Value v) { kind = Arr; a.push_back(std::move(v)); return a.back(); }
  Value& set(const std::string& k, Value v) {
    kind = Obj;
    for (auto& kv : o) if (kv.first == k) { kv.second = std::move(v); return kv.second; }
    o.emplace_back(k, std::move(v));
    return o.back().second;
  }
  const Value* find(const std::string& k) const {
    for (auto& kv : o) if (kv.first == k) return &kv.second;
    return nullptr;
  }
  bool has(const std::string& k) const { return find(k) != nullptr; }
  const Value& at(const std::string& k) const {
    const Value* v = find(k);
    if (!v) throw std::runtime_error("json: missing key " + k);
    return *v;
  }
};

inline void escape(const std::string& s, std::string& out) {
  out += '"';
  for (unsigned char c : s) {
    if (c == '"') out += "\\\"";
    else if (c == '\\') out += "\\\\";
    else if (c == '\n') out += "\\n";
    else if (c == '\t') out += "\\t";
    else if (c < 0x20) { char b[8]; snprintf(b, sizeof b, "\\u%04x", c); out += b; }
    else out += (char)c;
  }
  out += '"';
}

inline void write(const Value& v, std::string& out) {
  switch (v.kind) {
    case Value::Null: out += "null"; break;
    case Value::Bool: out += v.b ? "true" : "false"; break;
    case Value::Int: out += std::to_string(v.i); break;
    case Value::Dbl: {
      char b[40];
      if (v.d != v.d || v.d - v.d != 0) snprintf(b, sizeof b, "null");
      else snprintf(b, sizeof b, "%.17g", v.d);
      out += b;
      if (!strpbrk(b, ".einn")) out += ".0";
      break;
    }
    case Value::Str: escape(v.s, out); break;
    case Value::Arr: {
      out += '[';
      bool first = true;
      for (auto& e : v.a) { if (!first) out += ','; first = false; write(e, out); }
      out += ']';
      break;
    }
    case Value::Obj: {
      out += '{';
      bool first = true;
      for (auto& kv : v.o) {
        if (!first) out += ',';
        first = false;
        escape(kv.first, out);
        out += ':';
        write(kv.second, out);
      }
      out += '}';
      break;
    }
  }
}
inline std::string dump(const Value& v) { std::string s; write(v, s); return s; }

struct Parser {
  const char* p;
  const char* e;
  void ws() { while (p < e && (*p == ' ' || *p == '\n' || *p == '\t' || *p == '\r')) ++p; }
  [[noreturn]] void fail(const char* m) { throw std::runtime_error(std::string("json parse: ") + m); }
  Value parse() {
    ws();
    if (p >= e) fail("eof");
    char c = *p;
    if (c == '{') {
      ++p;
      Value v = Value::object();
      ws();
      if (p < e && *p == '}') { ++p; return v; }
      for (;;) {
        ws();
        Value k = parse();
        if (k.kind != Value::Str) fail("key");
        ws();
        if (p >= e || *p != ':') fail(":");
        ++p;
        v.o.emplace_back(k.s, parse());
        ws();
        if (p < e && *p == ',') { ++p; continue; }
        if (p < e && *p == '}') { ++p; break; }
        fail("obj");
      }
      return v;
    }
    if (c == '[') {
      ++p;
      Value v = Value::array();
      ws();
      if (p < e && *p == ']') { ++p; return v; }
      for (;;) {
        v.a.push_back(parse());
        ws();
        if (p < e && *p == ',') { ++p; continue; }
        if (p < e && *p == ']') { ++p; break; }
        fail("arr");
      }
      return v;
    }
    if (c == '"') {
      ++p;
      Value v;
      v.kind = Value::Str;
      while (p < e && *p != '"') {
        if (*p == '\\' && p + 1 < e) {
          ++p;
          char x = *p++;
          if (x == 'n') v.s += '\n';
          else if (x == 't') v.s += '\t';
          else if (x == 'u') { unsigned u = 0; sscanf(p, "%4x", &u); p += 4; v.s += (char)u; }
          else v.s += x;
        } else v.s += *p++;
      }
      if (p >= e) fail("str");
      ++p;
      return v;
    }
    if (!strncmp(p, "true", 4)) { p += 4; return Value(true); }
    if (!strncmp(p, "false", 5)) { p += 5; return Value(false); }
    if (!strncmp(p, "null", 4)) { p += 4; return Value(); }
    const char* q = p;
    bool isd = false;
    if (*q == '-' || *q == '+') ++q;
    while (q < e && (isdigit((unsigned char)*q) || *q == '.' || *q == 'e' || *q == 'E' || *q == '-' || *q == '+')) {
      if (*q == '.' || *q == 'e' || *q == 'E') isd = true;
      ++q;
    }
    if (q == p) fail("value");
    std::string t(p, q);
    p = q;
    if (isd) return Value(strtod(t.c_str(), nullptr));
    return Value((long long)strtoll(t.c_str(), nullptr, 10));
  }
};

inline Value parse(const std::string& s) {
  Parser ps{s.data(), s.data() + s.size()};
  return ps.parse();
}

inline std::string readFile(const std::string& path) {
  FILE* f = fopen(path.c_str(), "rb");
  if (!f) throw std::runtime_error("cannot open " + path);
  std::string s;
  char buf[65536];
  size_t n;
  while ((n = fread(buf, 1, sizeof buf, f)) > 0) s.append(buf, n);
  fclose(f);
  return s;
}
inline void writeFile(const std::string& path, const std::string& s) {
  std::string tmp = path + ".tmp";
  FILE* f = fopen(tmp.c_str(), "wb");
  if (!f) throw std::runtime_error("cannot write " + path);
  fwrite(s.data(), 1, s.size(), f);
  fclose(f);
  rename(tmp.c_str(), path.c_str());
}

}  // namespace js
