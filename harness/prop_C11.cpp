// C11 — execution always succeeds on valid input and invalid arguments are reported.
#include "gen.hpp"
#include "shimconv.hpp"
#include "cexport.hpp"

namespace {

const char* kindName(int k) {
  static const char* n[] = {"ClipperD.AddSubject", "ClipperD.AddClip", "ClipperD.AddOpenSubject", "BooleanOp(PathsD)", "Union(PathsD)",
                            "InflatePaths(PathsD)", "RectClip(PathsD)", "RectClipLines(PathsD)", "TrimCollinear(PathD)", "ScalePath",
                            "MakePath", "MakePathD", "BooleanOp(PathsD,PolyTreeD)", "ScalePaths(sx,sy)"};
  return n[k];
}

shim::ProbeArgs argsOf(const Case& c) {
  shim::ProbeArgs a;
  a.kind = (int)c.I("kind");
  a.precision = (int)c.I("precision");
  a.paths = toShimD(c.PD("paths"));
  a.scale = c.D("scale", 1.0);
  a.scaleX = c.D("sx", 1.0); a.scaleY = c.D("sy", 1.0);
  for (auto& p : c.P("list")) for (auto& q : p) { a.list.push_back(q.x); a.list.push_back(q.y); }
  if (c.I("odd")) a.list.push_back(7);
  a.delta = c.D("delta", 1.0);
  a.l = c.D("l", -1e9); a.t = c.D("t", -1e9); a.r = c.D("r", 1e9); a.b = c.D("b", 1e9);
  return a;
}

// part "report": every argument-validation path, with and without exceptions
Verdict judgeReport(const Case& c) {
  Verdict v;
  shim::ProbeArgs a = argsOf(c);
  if (a.kind < 0 || a.kind >= shim::P_NKINDS) { v.discard = true; return v; }
  if (a.paths.empty() || a.paths[0].size() < 3) { v.discard = true; return v; }
  bool usesPrecision = a.kind <= shim::P_TrimCollinearD || a.kind == shim::P_BooleanOpTreeD;
  bool usesRange = usesPrecision && a.kind != shim::P_TrimCollinearD;   // PathsD entry points (documented range check)
  bool badPrecision = usesPrecision && (a.precision < -8 || a.precision > 8);
  // coordinate range: expected out of range iff max|coord| * scale is clearly beyond MAX_COORD; cases within a
  // relative 2^-20 of the boundary are not generated (see genReport), so the expectation is unambiguous
  double maxc = 0;
  for (auto& p : a.paths) for (auto& q : p) maxc = std::max(maxc, std::max(std::fabs(q.x), std::fabs(q.y)));
  int pclamp = std::max(-8, std::min(8, a.precision));
  // ClipperD (and everything built on it) scales by the smallest power of two above 10^precision, the rest by 10^precision
  bool pow2 = a.kind <= shim::P_ClipperD_Open || a.kind == shim::P_BooleanOpD || a.kind == shim::P_UnionD || a.kind == shim::P_BooleanOpTreeD;
  double scale = pow2 ? std::pow(2.0, std::ilogb(std::pow(10.0, pclamp)) + 1) : std::pow(10.0, pclamp);
  bool badRange = usesRange && maxc * scale > (double)MAX_COORD;
  if (a.kind == shim::P_ScalePaths2) {
    // two independent scales: out of range iff max|x|*sx or max|y|*sy leaves the range (positive scales only)
    double mx = 0, my = 0;
    for (auto& p : a.paths) for (auto& q : p) { mx = std::max(mx, std::fabs(q.x)); my = std::max(my, std::fabs(q.y)); }
    double fx = mx * a.scaleX / (double)MAX_COORD, fy = my * a.scaleY / (double)MAX_COORD;
    if (a.scaleX <= 0 || a.scaleY <= 0 || std::fabs(fx - 1) < 1e-3 || std::fabs(fy - 1) < 1e-3) { v.discard = true; return v; }
    badRange = fx > 1 || fy > 1;
  }
  if (a.kind == shim::P_InflatePathsD && a.delta == 0) badRange = false;  // nothing is scaled: the input is returned as is
  bool badScale = a.kind == shim::P_ScalePath && a.scale == 0;
  bool badPair = (a.kind == shim::P_MakePath || a.kind == shim::P_MakePathD) && (a.list.size() % 2 == 1);
  bool invalid = badPrecision || badRange || badScale || badPair;
  std::string what = std::string(kindName(a.kind)) + " precision=" + std::to_string(a.precision) +
                     (badPrecision ? " (out of range)" : "") + (badRange ? " coordinates out of range" : "") +
                     (badScale ? " zero scale" : "") + (badPair ? " odd number of values" : "");

  // --- with exceptions ---
  shim::ProbeResult p = shim_plain::probe(a);
  v.evals++;
  if (invalid && !p.threw) { v.fail("invalid argument silently accepted (no exception): " + what); return v; }
  if (!invalid && p.threw) { v.fail("exception on valid arguments: " + what); return v; }
  // --- without exceptions ---
  shim::ProbeResult q = shim_ne::probe(a);
  v.evals++;
  if (!invalid) {
    if (q.error != 0) { v.fail("error code " + std::to_string(q.error) + " on valid arguments (no-exceptions build): " + what); return v; }
    if (p.outPaths != q.outPaths || p.outPts != q.outPts) { v.fail("builds with and without exceptions disagree on valid arguments: " + what); return v; }
  } else {
    int wantBit = badPrecision ? 1 : badRange ? 64 : badScale ? 2 : 4;
    bool reportedByCode = q.hasErrorCode && (q.error & wantBit);
    bool empty = q.outPts == 0;
    // the literal clause: error code (where the call has one) together with an empty result
    bool literal = (q.hasErrorCode ? reportedByCode : true) && empty;
    if (!literal) {
      // call sites known to deviate from the literal clause (DESIGN.md, KF-C11-*): they are still required to
      // report through the channel they have
      if (badPrecision && a.kind <= shim::P_ClipperD_Open && reportedByCode) { v.known = "KF-C11-a"; }
      else if (badScale && reportedByCode) { v.known = "KF-C11-b"; }
      else if (badPair) { v.known = "KF-C11-c"; }
      else { v.fail("no-exceptions build: invalid argument not reported (error code " + std::to_string(q.error) + ", " + std::to_string(q.outPts) + " output points): " + what); return v; }
    }
  }
  v.nontrivial = invalid || std::abs(a.precision) == 8 || maxc * scale > 0.25 * (double)MAX_COORD;
  ST.count(std::string("kind_") + kindName(a.kind));
  ST.count(invalid ? "invalid_argument_cases" : "valid_argument_cases");
  if (badPrecision) ST.count("bad_precision");
  if (badRange) ST.count("bad_range");
  return v;
}

Case genReport() {
  Case c;
  int kind = (int)G::range(0, shim::P_NKINDS - 1);
  c.i["kind"] = kind;
  static const std::vector<int64_t> precs = {-20, -10, -9, -9, -8, -8, -7, -3, 0, 2, 2, 5, 7, 8, 8, 9, 9, 10, 15, 20};
  c.i["precision"] = G::chance(70) ? G::oneOf(precs) : G::range(-20, 20);
  int p = (int)std::max<int64_t>(-8, std::min<int64_t>(8, c.i["precision"]));
  bool pow2 = kind <= shim::P_ClipperD_Open || kind == shim::P_BooleanOpD || kind == shim::P_UnionD || kind == shim::P_BooleanOpTreeD;
  double scale = pow2 ? std::pow(2.0, std::ilogb(std::pow(10.0, p)) + 1) : std::pow(10.0, p);
  // magnitude relative to the range boundary MAX_COORD / scale
  static const std::vector<double> fac = {1e-12, 1e-6, 0.25, 0.5, 0.99, 0.9999, 1.0001, 1.01, 2.0, 100.0};
  double f = G::chance(50) ? 1e-9 : G::oneOf(fac);
  // entry points without a documented range check, or whose valid range is smaller than the integer range
  // (offsetting: 2^40), are only probed far inside the range
  if (kind == shim::P_TrimCollinearD || kind == shim::P_ScalePath || kind == shim::P_MakePath || kind == shim::P_MakePathD) f = 1e-9;
  if (kind == shim::P_InflatePathsD && f < 1.0) f = 1e-9;
  double mag = (double)MAX_COORD / scale * f;
  if (mag < 10) mag = 10;
  PathD path;
  int n = (int)G::range(3, 6);
  for (int k = 0; k < n; ++k) path.emplace_back(G::real(-mag, mag), G::real(-mag, mag));
  // make sure one coordinate actually carries the magnitude
  path[G::pick(path.size())].x = G::coin() ? mag : -mag;
  c.pd["paths"] = {path};
  if (kind == shim::P_ScalePaths2) {
    // x and y get independent magnitudes relative to the boundary: each axis alone can leave the range
    static const std::vector<double> f2 = {1e-9, 1e-3, 0.5, 0.99, 1.01, 2.0, 100.0};
    double sx = G::oneOf(std::vector<double>{1.0, 0.5, 1e-3, 100.0, 1e6}), sy = G::oneOf(std::vector<double>{1.0, 0.5, 1e-3, 100.0, 1e6});
    double magx = (double)MAX_COORD / sx * G::oneOf(f2), magy = (double)MAX_COORD / sy * G::oneOf(f2);
    PathD p2;
    for (int k = 0; k < n; ++k) p2.emplace_back(G::real(-magx, magx), G::real(-magy, magy));
    p2[G::pick(p2.size())].x = G::coin() ? magx : -magx;
    p2[G::pick(p2.size())].y = G::coin() ? magy : -magy;
    c.pd["paths"] = {p2};
    c.d["sx"] = sx; c.d["sy"] = sy;
  }
  c.d["scale"] = G::chance(40) ? 0.0 : G::oneOf(std::vector<double>{1.0, -2.0, 0.5, 1e-3, 100.0});
  Path64 lst;
  int ln = (int)G::range(1, 5);
  for (int k = 0; k < ln; ++k) lst.emplace_back(G::sym(1000), G::sym(1000));
  c.p["list"] = {lst};
  c.i["odd"] = G::range(0, 1);
  c.d["delta"] = G::chance(15) ? 0.0 : G::real(-5, 5);
  double rm = std::min(mag * 2, 0.9 * (double)MAX_COORD / scale);
  c.d["l"] = -rm; c.d["t"] = -rm; c.d["r"] = rm; c.d["b"] = rm;
  return c;
}

// part "cboundary": the C export functions reject invalid enums / precision and leave outputs untouched;
// valid calls return 0, NoClip gives empty solutions
Verdict judgeC(const Case& c) {
  Verdict v;
  int ct = (int)c.I("ct"), fr = (int)c.I("fr"), prec = (int)c.I("precision"), fn = (int)c.I("fn");
  if (ct < 0 || ct > 255 || fr < 0 || fr > 255) { v.discard = true; return v; }
  const Paths64& subj = c.P("subj");
  const Paths64& clip = c.P("clip");
  const Paths64& open = c.P("open");
  bool badCt = ct > 4, badFr = fr > 3, badPrec = prec < -8 || prec > 8;
  std::string what = "fn=" + std::to_string(fn) + " cliptype=" + std::to_string(ct) + " fillrule=" + std::to_string(fr) + " precision=" + std::to_string(prec);
  static int64_t sentinel64[2] = {2, 0};
  static double sentinelD[2] = {2, 0};
  int64_t *s64 = cx::encodePaths(subj, true), *o64 = cx::encodePaths(open, true), *c64 = cx::encodePaths(clip, true);
  PathsD sd = TransformPaths<double, int64_t>(subj), od = TransformPaths<double, int64_t>(open), cd = TransformPaths<double, int64_t>(clip);
  double *sD = cx::encodePaths(sd, true), *oD = cx::encodePaths(od, true), *cD = cx::encodePaths(cd, true);
  auto cleanup = [&]() { delete[] s64; delete[] o64; delete[] c64; delete[] sD; delete[] oD; delete[] cD; };
  v.evals = 1;
  if (fn == 0 || fn == 1) {
    int64_t* sol = sentinel64;
    int64_t* solOpen = sentinel64;
    int rc = fn == 0 ? BooleanOp64((uint8_t)ct, (uint8_t)fr, s64, o64, c64, sol, solOpen, c.I("pc"), c.I("rev"))
                     : BooleanOp_PolyTree64((uint8_t)ct, (uint8_t)fr, s64, o64, c64, sol, solOpen, c.I("pc"), c.I("rev"));
    int want = badCt ? -4 : badFr ? -3 : 0;
    if (rc != want) { cleanup(); v.fail("returned " + std::to_string(rc) + ", expected " + std::to_string(want) + ": " + what); return v; }
    if (rc != 0 && (sol != sentinel64 || solOpen != sentinel64)) { cleanup(); v.fail("output pointers modified on a rejected call: " + what); return v; }
    if (rc == 0) {
      cx::DecodeInfo d1, d2;
      if (fn == 0) { Paths64 r = cx::decodePaths(sol, d1); if (ct == 0 && !r.empty()) { v.fail("NoClip gave a non-empty solution: " + what); } }
      else { cx::FlatNode<int64_t> t = cx::decodeTree(sol, d1); if (ct == 0 && !t.kids.empty()) { v.fail("NoClip gave a non-empty tree: " + what); } }
      Paths64 ro = cx::decodePaths(solOpen, d2);
      if (ct == 0 && !ro.empty()) v.fail("NoClip gave a non-empty open solution: " + what);
      if (!d1.ok) v.fail(std::string("malformed solution array: ") + d1.why + ": " + what);
      if (!d2.ok) v.fail(std::string("malformed open solution array: ") + d2.why + ": " + what);
      if (sol != sentinel64) DisposeArray64(sol);
      if (solOpen != sentinel64) DisposeArray64(solOpen);
    }
  } else if (fn == 2 || fn == 3) {
    double* sol = sentinelD;
    double* solOpen = sentinelD;
    int rc = fn == 2 ? BooleanOpD((uint8_t)ct, (uint8_t)fr, sD, oD, cD, sol, solOpen, prec, c.I("pc"), c.I("rev"))
                     : BooleanOp_PolyTreeD((uint8_t)ct, (uint8_t)fr, sD, oD, cD, sol, solOpen, prec, c.I("pc"), c.I("rev"));
    int want = badPrec ? -5 : badCt ? -4 : badFr ? -3 : 0;
    if (rc != want) { cleanup(); v.fail("returned " + std::to_string(rc) + ", expected " + std::to_string(want) + ": " + what); return v; }
    if (rc != 0 && (sol != sentinelD || solOpen != sentinelD)) { cleanup(); v.fail("output pointers modified on a rejected call: " + what); return v; }
    if (rc == 0) {
      cx::DecodeInfo d1, d2;
      if (fn == 2) { PathsD r = cx::decodePaths(sol, d1); if (ct == 0 && !r.empty()) v.fail("NoClip gave a non-empty solution: " + what); }
      else { cx::FlatNode<double> t = cx::decodeTree(sol, d1); if (ct == 0 && !t.kids.empty()) v.fail("NoClip gave a non-empty tree: " + what); }
      PathsD ro = cx::decodePaths(solOpen, d2);
      if (ct == 0 && !ro.empty()) v.fail("NoClip gave a non-empty open solution: " + what);
      if (!d1.ok) v.fail(std::string("malformed solution array: ") + d1.why + ": " + what);
      if (!d2.ok) v.fail(std::string("malformed open solution array: ") + d2.why + ": " + what);
      if (sol != sentinelD) DisposeArrayD(sol);
      if (solOpen != sentinelD) DisposeArrayD(solOpen);
    }
  } else {
    // precision-taking exports that answer with a null result
    CRectD rect{-1e6, -1e6, 1e6, 1e6};
    double* r = nullptr;
    if (fn == 4) r = InflatePathsD(sD, 2.0, 0, 0, prec, 2.0, 0.0, false);
    else if (fn == 5) { double* p1 = cx::encodePath(sd.empty() ? PathD{PointD(0, 0), PointD(5, 0), PointD(5, 5)} : sd[0]); r = InflatePathD(p1, 2.0, 0, 0, prec, 2.0, 0.0, false); delete[] p1; }
    else if (fn == 6) r = RectClipD(rect, sD, prec);
    else r = RectClipLinesD(rect, sD, prec);
    if (badPrec && r != nullptr) { DisposeArrayD(r); cleanup(); v.fail("out-of-range precision accepted (non-null result): " + what); return v; }
    if (r) DisposeArrayD(r);
  }
  cleanup();
  v.nontrivial = badCt || badFr || badPrec || ct == 0;
  ST.count(badCt || badFr || badPrec ? "rejected_calls" : "accepted_calls");
  return v;
}

Case genC() {
  Case c;
  c.i["fn"] = G::range(0, 7);
  static const std::vector<int64_t> cts = {0, 1, 2, 3, 4, 4, 5, 5, 6, 100, 255};
  static const std::vector<int64_t> frs = {0, 1, 2, 3, 3, 4, 4, 5, 77, 255};
  static const std::vector<int64_t> precs = {-100, -9, -9, -8, -8, 0, 2, 2, 2, 8, 8, 9, 9, 50};
  c.i["ct"] = G::chance(60) ? G::range(0, 4) : G::oneOf(cts);
  c.i["fr"] = G::chance(60) ? G::range(0, 3) : G::oneOf(frs);
  c.i["precision"] = G::chance(50) ? 2 : G::oneOf(precs);
  c.i["pc"] = G::range(0, 1); c.i["rev"] = G::range(0, 1);
  GEN::DegPool pool;
  int64_t M = GEN::magOfClass((int)G::range(0, 2));
  c.p["subj"] = GEN::degPaths(3, 8, M, pool);
  c.p["clip"] = GEN::degPaths(3, 8, M, pool);
  if (G::chance(30)) c.p["open"] = GEN::degPaths(2, 5, M, pool);
  return c;
}

// part "success": the C++ API's success clause.  Every way of loading paths (direct, or through a ReuseableDataContainer64),
// every clip type including NoClip, every fill rule, every Execute overload, optionally after Clear() or a previous
// Execute: Execute returns true, and NoClip (or an empty clipper) yields empty solutions.
Verdict judgeSuccess(const Case& c) {
  Verdict v;
  const Paths64 &subj = c.P("subj"), &clip = c.P("clip"), &open = c.P("open");
  ClipType ct = (ClipType)c.I("ct");
  FillRule fr = (FillRule)c.I("fr");
  int feed = (int)c.I("feed"), overload = (int)c.I("overload"), pre = (int)c.I("pre");
  std::string what = std::string(" [") + (ct == ClipType::NoClip ? "NoClip" : O::ctName(ct)) + "," + O::frName(fr) + ",feed=" +
                     (feed == 0 ? "AddSubject/AddClip" : feed == 1 ? "AddReuseableData" : "mixed") + ",overload=" + std::to_string(overload) + ",pre=" + std::to_string(pre) + "]";
  ReuseableDataContainer64 rdc;
  if (feed >= 1) { rdc.AddPaths(subj, PathType::Subject, false); if (!open.empty()) rdc.AddPaths(open, PathType::Subject, true); if (feed == 1) rdc.AddPaths(clip, PathType::Clip, false); }
  auto load = [&](Clipper64* c64) {
    if (feed == 0) { c64->AddSubject(subj); if (!open.empty()) c64->AddOpenSubject(open); c64->AddClip(clip); }
    else { c64->AddReuseableData(rdc); if (feed == 2) c64->AddClip(clip); }
  };
  auto run = [&](Clipper64& cl, ClipType t, bool& emptyOut) {
    Paths64 sol, so; PolyTree64 tree;
    bool ok;
    if (overload == 0) { ok = cl.Execute(t, fr, sol); emptyOut = sol.empty(); }
    else if (overload == 1) { ok = cl.Execute(t, fr, sol, so); emptyOut = sol.empty() && so.empty(); }
    else if (overload == 2) { ok = cl.Execute(t, fr, tree); emptyOut = tree.Count() == 0; }
    else { ok = cl.Execute(t, fr, tree, so); emptyOut = tree.Count() == 0 && so.empty(); }
    v.evals++;
    return ok;
  };
  Clipper64 cl;
  cl.PreserveCollinear(c.I("pc") != 0);
  bool emptyOut = false;
  if (pre == 1) { load(&cl); if (!run(cl, (ClipType)(1 + c.I("prect") % 4), emptyOut)) { v.fail("first Execute returned false" + what); return v; } }
  else if (pre == 2) { load(&cl); cl.Clear(); if (!run(cl, ct, emptyOut)) { v.fail("Execute on a cleared clipper returned false" + what); return v; }
                       if (!emptyOut) { v.fail("a cleared clipper returned a non-empty solution" + what); return v; } }
  if (pre != 1) load(&cl);
  if (!run(cl, ct, emptyOut)) { v.fail("Execute returned false" + what); return v; }
  if (ct == ClipType::NoClip && !emptyOut) { v.fail("NoClip gave a non-empty solution" + what); return v; }
  // ClipperD: same clause on the scaled input (precision 2), direct loading only
  if (O::maxAbs(subj) < (int64_t(1) << 40) && O::maxAbs(clip) < (int64_t(1) << 40) && O::maxAbs(open) < (int64_t(1) << 40)) {
    ClipperD cd(2);
    cd.AddSubject(TransformPaths<double, int64_t>(subj)); cd.AddClip(TransformPaths<double, int64_t>(clip));
    if (!open.empty()) cd.AddOpenSubject(TransformPaths<double, int64_t>(open));
    PathsD sol, so; PolyTreeD tree; bool ok, emp;
    if (overload == 0) { ok = cd.Execute(ct, fr, sol); emp = sol.empty(); }
    else if (overload == 1) { ok = cd.Execute(ct, fr, sol, so); emp = sol.empty() && so.empty(); }
    else if (overload == 2) { ok = cd.Execute(ct, fr, tree); emp = tree.Count() == 0; }
    else { ok = cd.Execute(ct, fr, tree, so); emp = tree.Count() == 0 && so.empty(); }
    v.evals++;
    if (!ok) { v.fail("ClipperD::Execute returned false" + what); return v; }
    if (ct == ClipType::NoClip && !emp) { v.fail("ClipperD: NoClip gave a non-empty solution" + what); return v; }
  }
  v.nontrivial = feed != 0 || ct == ClipType::NoClip || pre != 0;
  ST.count(std::string("feed_") + (feed == 0 ? "direct" : feed == 1 ? "reuseable" : "mixed"));
  if (ct == ClipType::NoClip) ST.count("noclip");
  return v;
}

Case genSuccess() {
  Case c;
  c.i["ct"] = G::chance(25) ? 0 : G::range(1, 4);
  c.i["fr"] = G::range(0, 3);
  c.i["feed"] = G::range(0, 2);
  c.i["overload"] = G::range(0, 3);
  c.i["pre"] = G::chance(50) ? 0 : G::range(1, 2);
  c.i["prect"] = G::range(0, 3);
  c.i["pc"] = G::range(0, 1);
  int shape = (int)G::range(0, 4);
  if (shape <= 1) {
    // degenerate material: empty, 1- and 2-point paths, horizontal-only paths, coincident points
    GEN::DegPool pool;
    int64_t M = GEN::magOfClass((int)G::range(0, 2));
    c.p["subj"] = GEN::degPaths(3, 6, M, pool);
    c.p["clip"] = G::chance(30) ? Paths64() : GEN::degPaths(3, 6, M, pool);
    if (G::chance(40)) c.p["open"] = GEN::degPaths(2, 5, M, pool);
    if (G::chance(25)) for (auto* pp : {&c.p["subj"], &c.p["clip"]}) for (auto& p : *pp) for (auto& q : p) q.y = 5;   // horizontal only
  } else {
    int64_t R = G::oneOf(std::vector<int64_t>{100, 10000, int64_t(1) << 30});
    Paths64 s, cl, op;
    int ns = (int)G::range(0, 2), nc = (int)G::range(0, 2), no = (int)G::range(0, 2);
    for (int k = 0; k < ns; ++k) s.push_back(GEN::randomPath(1, 7, R));
    for (int k = 0; k < nc; ++k) cl.push_back(GEN::randomPath(1, 7, R));
    for (int k = 0; k < no; ++k) op.push_back(GEN::randomPath(1, 5, R));
    c.p["subj"] = s; c.p["clip"] = cl; c.p["open"] = op;
  }
  return c;
}

}  // namespace

int main(int argc, char** argv) {
  Harness H;
  H.property = "C11";
  H.parts.push_back({"report", genReport, judgeReport, nullptr, true});
  H.parts.push_back({"cboundary", genC, judgeC, nullptr, true});
  H.parts.push_back({"success", genSuccess, judgeSuccess, nullptr, true});
  return harnessMain(argc, argv, H);
}
