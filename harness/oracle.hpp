// Library-independent oracles: exact orientation/winding in __int128, distances
// in long double, face sampling of an edge arrangement, canonical forms.
#pragma once
#include "common.hpp"

namespace O {

struct Seg { Point64 a, b; int path; int idx; };  // idx = index of a within its path

inline int sgn(i128 v) { return (v > 0) - (v < 0); }
inline i128 cross(const Point64& a, const Point64& b, const Point64& c) {
  return ((i128)b.x - a.x) * ((i128)c.y - a.y) - ((i128)b.y - a.y) * ((i128)c.x - a.x);
}
inline i128 dot(const Point64& a, const Point64& b, const Point64& c) {
  return ((i128)b.x - a.x) * ((i128)c.x - a.x) + ((i128)b.y - a.y) * ((i128)c.y - a.y);
}
inline bool onSegment(const Point64& p, const Point64& a, const Point64& b) {
  if (cross(a, b, p) != 0) return false;
  return std::min(a.x, b.x) <= p.x && p.x <= std::max(a.x, b.x) &&
         std::min(a.y, b.y) <= p.y && p.y <= std::max(a.y, b.y);
}

// winding number of p with respect to a closed path; on = p lies on the path
struct Wn { int w = 0; bool on = false; };
inline Wn winding(const Point64& p, const Path64& path) {
  Wn r;
  size_t n = path.size();
  if (n < 2) { if (n == 1 && path[0] == p) r.on = true; return r; }
  for (size_t i = 0; i < n; ++i) {
    const Point64& a = path[i];
    const Point64& b = path[(i + 1) % n];
    if (onSegment(p, a, b)) r.on = true;
    if (a.y <= p.y) {
      if (b.y > p.y && cross(a, b, p) > 0) ++r.w;
    } else {
      if (b.y <= p.y && cross(a, b, p) < 0) --r.w;
    }
  }
  return r;
}
inline Wn winding(const Point64& p, const Paths64& paths) {
  Wn r;
  for (auto& path : paths) { Wn w = winding(p, path); r.w += w.w; r.on = r.on || w.on; }
  return r;
}

inline bool filled(FillRule fr, int w) {
  switch (fr) {
    case FillRule::EvenOdd: return (w & 1) != 0;
    case FillRule::NonZero: return w != 0;
    case FillRule::Positive: return w > 0;
    case FillRule::Negative: return w < 0;
  }
  return false;
}
inline bool op(ClipType ct, bool s, bool c) {
  switch (ct) {
    case ClipType::Intersection: return s && c;
    case ClipType::Union: return s || c;
    case ClipType::Difference: return s && !c;
    case ClipType::Xor: return s != c;
    default: return false;
  }
}

// exact doubled signed area (shoelace), positive = counter-clockwise with y up
inline i128 area2(const Path64& p) {
  i128 a = 0;
  size_t n = p.size();
  for (size_t i = 0; i < n; ++i) {
    const Point64& u = p[i];
    const Point64& v = p[(i + 1) % n];
    a += (i128)u.x * v.y - (i128)v.x * u.y;
  }
  return a;
}
inline i128 area2(const Paths64& pp) { i128 a = 0; for (auto& p : pp) a += area2(p); return a; }

inline ld toLd(i128 v) { return (ld)v; }

// distance from point (ld coords) to segment
inline ld distPtSeg(ld px, ld py, const Point64& a, const Point64& b) {
  ld ax = (ld)a.x, ay = (ld)a.y, bx = (ld)b.x, by = (ld)b.y;
  ld dx = bx - ax, dy = by - ay;
  ld l2 = dx * dx + dy * dy;
  if (l2 == 0) return hypotl(px - ax, py - ay);
  ld t = ((px - ax) * dx + (py - ay) * dy) / l2;
  if (t <= 0) return hypotl(px - ax, py - ay);
  if (t >= 1) return hypotl(px - bx, py - by);
  return fabsl((px - ax) * dy - (py - ay) * dx) / sqrtl(l2);
}
// exact-ish distance for integer point: cross product exact in i128
inline ld distPtSeg(const Point64& p, const Point64& a, const Point64& b) {
  i128 l2 = dot(a, b, b);
  if (l2 == 0) return hypotl((ld)(p.x - a.x), (ld)(p.y - a.y));
  i128 d = dot(a, b, p);
  if (d <= 0) return hypotl((ld)((i128)p.x - a.x), (ld)((i128)p.y - a.y));
  if (d >= l2) return hypotl((ld)((i128)p.x - b.x), (ld)((i128)p.y - b.y));
  i128 c = cross(a, b, p);
  if (c < 0) c = -c;
  return toLd(c) / sqrtl(toLd(l2));
}

inline std::vector<Seg> segsOf(const Paths64& paths, bool closed = true, int pathBase = 0) {
  std::vector<Seg> r;
  for (size_t k = 0; k < paths.size(); ++k) {
    const Path64& p = paths[k];
    size_t n = p.size();
    if (n < 2) continue;
    size_t m = closed ? n : n - 1;
    for (size_t i = 0; i < m; ++i) r.push_back({p[i], p[(i + 1) % n], pathBase + (int)k, (int)i});
  }
  return r;
}

inline ld distToSegs(const Point64& p, const std::vector<Seg>& segs) {
  ld best = 1e300L;
  for (auto& s : segs) best = std::min(best, distPtSeg(p, s.a, s.b));
  return best;
}
inline ld distToSegs(ld px, ld py, const std::vector<Seg>& segs) {
  ld best = 1e300L;
  for (auto& s : segs) best = std::min(best, distPtSeg(px, py, s.a, s.b));
  return best;
}

// proper crossing (interiors cross at a single point)
inline bool properCross(const Point64& a, const Point64& b, const Point64& c, const Point64& d) {
  int o1 = sgn(cross(a, b, c)), o2 = sgn(cross(a, b, d));
  int o3 = sgn(cross(c, d, a)), o4 = sgn(cross(c, d, b));
  return o1 * o2 < 0 && o3 * o4 < 0;
}
// any contact at all between closed segments
inline bool segsTouch(const Point64& a, const Point64& b, const Point64& c, const Point64& d) {
  int o1 = sgn(cross(a, b, c)), o2 = sgn(cross(a, b, d));
  int o3 = sgn(cross(c, d, a)), o4 = sgn(cross(c, d, b));
  if (o1 * o2 < 0 && o3 * o4 < 0) return true;
  return onSegment(c, a, b) || onSegment(d, a, b) || onSegment(a, c, d) || onSegment(b, c, d);
}
// crossing point of two properly crossing segments, long double
inline void crossPoint(const Point64& a, const Point64& b, const Point64& c, const Point64& d, ld& x, ld& y) {
  i128 den = ((i128)b.x - a.x) * ((i128)d.y - c.y) - ((i128)b.y - a.y) * ((i128)d.x - c.x);
  i128 num = ((i128)c.x - a.x) * ((i128)d.y - c.y) - ((i128)c.y - a.y) * ((i128)d.x - c.x);
  ld t = toLd(num) / toLd(den);
  x = (ld)a.x + t * ((ld)b.x - (ld)a.x);
  y = (ld)a.y + t * ((ld)b.y - (ld)a.y);
}

inline int64_t maxAbs(const Paths64& pp) {
  int64_t m = 0;
  for (auto& p : pp) for (auto& q : p) { m = std::max(m, q.x < 0 ? -q.x : q.x); m = std::max(m, q.y < 0 ? -q.y : q.y); }
  return m;
}

// ---------------------------------------------------------------------------
// General-position predicate (exact): see DESIGN.md G-gp.
// Every vertex >= minDist from every edge it is not an end of; every proper
// crossing point >= minDist from every third edge.  Returns the number of
// proper crossings in *crossings.
// ---------------------------------------------------------------------------
inline bool generalPosition(const std::vector<Seg>& segs, ld minDist, int* crossings = nullptr,
                            const std::vector<Seg>* extraOpen = nullptr) {
  std::vector<Seg> all = segs;
  if (extraOpen) all.insert(all.end(), extraOpen->begin(), extraOpen->end());
  size_t n = all.size();
  // zero-length edges are not allowed
  for (auto& s : all) if (s.a == s.b) return false;
  // vertex vs edge: each seg's start point 'a' is "the vertex"; for open paths
  // the last point is handled through b of the last segment below.
  auto isEndOf = [](const Point64& v, const Seg& vs, bool vIsA, const Seg& e) {
    // the vertex is an end of edge e iff same path and (e starts at it or e ends at it) by index
    (void)v;
    if (vs.path != e.path) return false;
    int vi = vIsA ? vs.idx : vs.idx + 1;
    return e.idx == vi || e.idx + 1 == vi;
  };
  // path lengths for cyclic index handling
  std::map<int, int> plen;
  for (auto& s : all) plen[s.path] = std::max(plen[s.path], s.idx + 1);
  auto isEndCyclic = [&](const Seg& vs, const Seg& e) {
    if (vs.path != e.path) return false;
    int L = plen[vs.path];
    int vi = vs.idx;            // vertex index
    int e0 = e.idx, e1 = (e.idx + 1) % L;  // closed path: edge joins e0 -> e1 (mod L)
    return vi == e0 || vi == e1;
  };
  size_t nClosed = segs.size();
  for (size_t i = 0; i < n; ++i) {
    for (size_t j = 0; j < n; ++j) {
      if (i == j) continue;
      const Seg& v = all[i];
      const Seg& e = all[j];
      bool vClosed = i < nClosed;
      if (vClosed) {
        if (isEndCyclic(v, e)) continue;
        if (distPtSeg(v.a, e.a, e.b) < minDist) return false;
      } else {
        if (!isEndOf(v.a, v, true, e) && distPtSeg(v.a, e.a, e.b) < minDist) return false;
        // last point of an open path
        bool last = true;
        for (size_t k = nClosed; k < n; ++k) if (all[k].path == v.path && all[k].idx == v.idx + 1) last = false;
        if (last && !isEndOf(v.b, v, false, e) && distPtSeg(v.b, e.a, e.b) < minDist) return false;
      }
    }
  }
  int nx = 0;
  for (size_t i = 0; i < n; ++i)
    for (size_t j = i + 1; j < n; ++j) {
      const Seg& s = all[i];
      const Seg& t = all[j];
      if (!properCross(s.a, s.b, t.a, t.b)) continue;
      ++nx;
      ld x, y;
      crossPoint(s.a, s.b, t.a, t.b, x, y);
      for (size_t k = 0; k < n; ++k) {
        if (k == i || k == j) continue;
        if (distPtSeg(x, y, all[k].a, all[k].b) < minDist) return false;
      }
    }
  if (crossings) *crossings = nx;
  return true;
}

// ---------------------------------------------------------------------------
// O-faces: one integer sample per face (wider than the band) of the arrangement
// ---------------------------------------------------------------------------
struct Samples {
  std::vector<Point64> pts;
  uint64_t skippedInBand = 0;
};
inline Samples faceSamples(const std::vector<Seg>& segs, ld tau, size_t cap = 1200) {
  Samples out;
  if (segs.empty()) return out;
  std::vector<ld> ys;
  for (auto& s : segs) { ys.push_back((ld)s.a.y); ys.push_back((ld)s.b.y); }
  size_t n = segs.size();
  for (size_t i = 0; i < n; ++i)
    for (size_t j = i + 1; j < n; ++j)
      if (properCross(segs[i].a, segs[i].b, segs[j].a, segs[j].b)) {
        ld x, y;
        crossPoint(segs[i].a, segs[i].b, segs[j].a, segs[j].b, x, y);
        ys.push_back(y);
      }
  std::sort(ys.begin(), ys.end());
  ld gap = 2 * (tau + 1);
  std::vector<Point64> cand;
  auto addRow = [&](ld ymf) {
    int64_t ym = (int64_t)floorl(ymf);
    std::vector<ld> xs;
    for (auto& s : segs) {
      int64_t lo = std::min(s.a.y, s.b.y), hi = std::max(s.a.y, s.b.y);
      if (lo == hi || ym < lo || ym > hi) continue;
      ld t = ((ld)ym - (ld)s.a.y) / ((ld)s.b.y - (ld)s.a.y);
      xs.push_back((ld)s.a.x + t * ((ld)s.b.x - (ld)s.a.x));
    }
    std::sort(xs.begin(), xs.end());
    if (xs.empty()) return;
    cand.emplace_back((int64_t)floorl(xs.front() - tau - 5), ym);
    cand.emplace_back((int64_t)ceill(xs.back() + tau + 5), ym);
    for (size_t k = 0; k + 1 < xs.size(); ++k)
      if (xs[k + 1] - xs[k] > gap) cand.emplace_back((int64_t)floorl((xs[k] + xs[k + 1]) / 2), ym);
  };
  for (size_t k = 0; k + 1 < ys.size(); ++k)
    if (ys[k + 1] - ys[k] > gap) addRow((ys[k] + ys[k + 1]) / 2);
  // thin the candidates deterministically when there are too many
  size_t step = cand.size() > cap ? (cand.size() + cap - 1) / cap : 1;
  for (size_t k = 0; k < cand.size(); k += step) {
    if (distToSegs(cand[k], segs) > tau) out.pts.push_back(cand[k]);
    else out.skippedInBand++;
  }
  return out;
}

// ---------------------------------------------------------------------------
// Canonical form of a set of closed paths (rotation to smallest vertex, sorted)
// ---------------------------------------------------------------------------
inline bool ptLess(const Point64& a, const Point64& b) { return a.x != b.x ? a.x < b.x : a.y < b.y; }
inline Path64 canonPath(const Path64& p) {
  if (p.empty()) return p;
  size_t n = p.size();
  // choose the lexicographically smallest rotation (handles repeated smallest vertices)
  size_t best = 0;
  for (size_t s = 1; s < n; ++s) {
    for (size_t k = 0; k < n; ++k) {
      const Point64& a = p[(s + k) % n];
      const Point64& b = p[(best + k) % n];
      if (ptLess(a, b)) { best = s; break; }
      if (ptLess(b, a)) break;
    }
  }
  Path64 r;
  r.reserve(n);
  for (size_t k = 0; k < n; ++k) r.push_back(p[(best + k) % n]);
  return r;
}
inline bool pathLess(const Path64& a, const Path64& b) {
  return std::lexicographical_compare(a.begin(), a.end(), b.begin(), b.end(), ptLess);
}
inline Paths64 canon(const Paths64& pp) {
  Paths64 r;
  for (auto& p : pp) r.push_back(canonPath(p));
  std::sort(r.begin(), r.end(), pathLess);
  return r;
}
inline Paths64 sortedOpen(const Paths64& pp) {
  Paths64 r = pp;
  std::sort(r.begin(), r.end(), pathLess);
  return r;
}

// doubled coordinates: edge midpoints become exact integer points
inline Point64 dbl(const Point64& p) { return Point64(p.x * 2, p.y * 2); }
inline Path64 dblPath(const Path64& p) { Path64 r; r.reserve(p.size()); for (auto& q : p) r.push_back(dbl(q)); return r; }
// Is closed path `in` inside (1), outside (0) the closed path `outer`, judged at the edge midpoints of `in`
// that do not lie on `outer`?  -1: every midpoint lies on outer (unresolved); -2: some inside, some outside.
inline int insideByMidpoints(const Path64& in, const Path64& outerDoubled) {
  int nin = 0, nout = 0;
  size_t n = in.size();
  for (size_t k = 0; k < n; ++k) {
    Point64 mid(in[k].x + in[(k + 1) % n].x, in[k].y + in[(k + 1) % n].y);
    Wn w = winding(mid, outerDoubled);
    if (w.on) continue;
    if (w.w != 0) ++nin; else ++nout;
  }
  if (nin && nout) return -2;
  if (!nin && !nout) return -1;
  return nin ? 1 : 0;
}

// a closed path is "composite" if two of its non-adjacent edges have a point in common (it touches or crosses itself)
inline bool compositePath(const Path64& p) {
  size_t n = p.size();
  for (size_t i = 0; i < n; ++i)
    for (size_t j = i + 1; j < n; ++j) {
      if (j == i + 1 || (i == 0 && j == n - 1)) continue;
      if (segsTouch(p[i], p[(i + 1) % n], p[j], p[(j + 1) % n])) return true;
    }
  return false;
}

inline std::string ptStr(const Point64& p) {
  return "(" + std::to_string(p.x) + "," + std::to_string(p.y) + ")";
}
inline const char* ctName(ClipType ct) {
  static const char* n[] = {"NoClip", "Intersection", "Union", "Difference", "Xor"};
  return n[(int)ct];
}
inline const char* frName(FillRule fr) {
  static const char* n[] = {"EvenOdd", "NonZero", "Positive", "Negative"};
  return n[(int)fr];
}

}  // namespace O
