// C19 — Minkowski sum and difference are the swept pattern.
#include "gen.hpp"
#include "clipper2/clipper.minkowski.h"

namespace {

struct Quad { Point64 q[4]; };

bool insideQuad(const Quad& Q, const Point64& p) {
  int pos = 0, neg = 0;
  for (int k = 0; k < 4; ++k) {
    i128 cr = O::cross(Q.q[k], Q.q[(k + 1) & 3], p);
    if (cr > 0) ++pos; else if (cr < 0) ++neg; else return false;  // on an edge line: not strictly inside
  }
  return pos == 4 || neg == 4;
}

std::vector<Quad> quadsOf(const Path64& pattern, const Path64& path, bool isSum, bool closed, Paths64* outlines = nullptr) {
  std::vector<Quad> out;
  size_t np = pattern.size(), n = path.size();
  if (np == 0 || n == 0) return out;
  auto comb = [&](const Point64& a, const Point64& b) { return isSum ? Point64(a.x + b.x, a.y + b.y) : Point64(a.x - b.x, a.y - b.y); };
  size_t edges = closed ? n : n - 1;
  for (size_t e = 0; e < edges; ++e) {
    const Point64 &a0 = path[e], &a1 = path[(e + 1) % n];
    for (size_t h = 0; h < np; ++h) {
      const Point64 &b0 = pattern[h], &b1 = pattern[(h + 1) % np];
      Quad Q{{comb(a0, b0), comb(a1, b0), comb(a1, b1), comb(a0, b1)}};
      Path64 qp(Q.q, Q.q + 4);
      if (outlines) outlines->push_back(qp);   // the tolerance band follows the edges of degenerate parallelograms too
      if (O::area2(qp) == 0) continue;  // degenerate parallelogram
      out.push_back(Q);
    }
  }
  return out;
}

// route (chosen per case): 0 the Path64 functions; 1 the PathD overloads with dp decimal places, fed with the operands
// divided by 10^dp and with the result multiplied back, so that the integer model applies unchanged
int g_dp = -1;
Paths64 mink(const Path64& pattern, const Path64& path, bool isSum, bool closed) {
  if (g_dp < 0) return isSum ? MinkowskiSum(pattern, path, closed) : MinkowskiDiff(pattern, path, closed);
  double sc = std::pow(10.0, g_dp);
  auto down = [&](const Path64& p) { PathD r; for (auto& q : p) r.emplace_back((double)q.x / sc, (double)q.y / sc); return r; };
  PathsD rd = isSum ? MinkowskiSum(down(pattern), down(path), closed, g_dp) : MinkowskiDiff(down(pattern), down(path), closed, g_dp);
  Paths64 r;
  for (auto& p : rd) { Path64 q; for (auto& pt : p) q.emplace_back((int64_t)std::llround(pt.x * sc), (int64_t)std::llround(pt.y * sc)); r.push_back(q); }
  return r;
}

std::vector<O::Seg> bandSegs(const Paths64& outlines) {
  std::vector<O::Seg> r;
  for (auto& sg : O::segsOf(outlines)) if (!(sg.a == sg.b)) r.push_back(sg);
  return r;
}

Verdict judge(const Case& c) {
  Verdict v;
  if (c.P("pattern").empty() || c.P("path").empty()) { v.discard = true; return v; }
  const Path64& pattern = c.P("pattern")[0];
  const Path64& path = c.P("path")[0];
  bool closed = c.I("closed") != 0;
  int64_t m = std::max(O::maxAbs(c.P("pattern")), O::maxAbs(c.P("path")));
  if (m > (int64_t(1) << 40)) { v.discard = true; return v; }
  // domain: each operand in general position by itself (C01's definition at separation 3 + |coord|*2^-40: no repeated
  // point, no vertex or self-crossing within that distance of an edge it does not lie on, no retraced edge).  One-point
  // operands have no edge and qualify; a closed two-point operand retraces its only edge and does not.
  ld sep = 3.0L + (ld)m * ldexpl(1.0L, -40);
  auto gpOp = [&](const Path64& p, bool closedOp) {
    if (p.size() <= 1) return true;
    if (closedOp && p.size() == 2) return false;
    Paths64 pp{p};
    if (closedOp) return O::generalPosition(O::segsOf(pp), sep);
    std::vector<O::Seg> os = O::segsOf(pp, false, 0);
    return O::generalPosition({}, sep, nullptr, &os);
  };
  g_dp = m <= (int64_t(1) << 38) ? (int)c.I("dp", -1) : -1;
  if (g_dp >= 0) ST.count("route_PathD_decimal_places_" + std::to_string(g_dp));
  bool inDomain = gpOp(pattern, true) && gpOp(path, closed);
  if (!inDomain) ST.count("operands_not_in_general_position");
  bool thin = false;
  for (int isSum = 1; isSum >= 0; --isSum) {
    Paths64 res = mink(pattern, path, isSum != 0, closed);
    v.evals++;
    std::string cfg = std::string(isSum ? " [MinkowskiSum" : " [MinkowskiDiff") + (closed ? ",closed]" : ",open]");
    if (pattern.empty() || path.empty()) { if (!res.empty()) { v.fail("empty pattern or path gave a non-empty result" + cfg); return v; } continue; }
    Paths64 qp;
    std::vector<Quad> quads = quadsOf(pattern, path, isSum != 0, closed, &qp);
    if (quads.empty()) { if (!res.empty()) { v.fail("no non-degenerate parallelogram but a non-empty result" + cfg); return v; } continue; }
    if (!inDomain) { v.discard = true; continue; }
    (void)thin;
    ld tau = 2.0L + (ld)(2 * m) * ldexpl(1.0L, -42);
    O::Samples S = O::faceSamples(bandSegs(qp), tau, 700);
    int overlapping = 0;
    for (auto& p : S.pts) {
      int cnt = 0;
      for (auto& Q : quads) if (insideQuad(Q, p)) ++cnt;
      if (cnt >= 2) ++overlapping;
      O::Wn w = O::winding(p, res);
      int want = cnt > 0 ? 1 : 0;
      if (w.w == want && !w.on) continue;
      // near-touch recogniser (KF-ENG-a): the quad set is full of shared edges and vertices; the mismatch must persist
      // when one path vertex moves by one unit (the sample stays farther than tau - 1.5 from the moved edges)
      // Every path vertex is moved by one unit in each of the four directions.  A defect of the Minkowski
      // construction (wrong edge set, sign, orientation handling) leaves the sample wrong under all of these moves;
      // the union's near-touch artefact depends on two particular features nearly touching and vanishes when one of
      // the vertices generating them moves.  Artefact = at least 4 judged moves and at least 2 of them cure it.
      int judged = 0, cured = 0;
      for (size_t vi = 0; vi < path.size(); ++vi)
        for (int d = 0; d < 4; ++d) {
          Path64 p2 = path;
          p2[vi].x += d == 0 ? 1 : d == 1 ? -1 : 0; p2[vi].y += d == 2 ? 1 : d == 3 ? -1 : 0;
          Paths64 qp2;
          std::vector<Quad> q2 = quadsOf(pattern, p2, isSum != 0, closed, &qp2);
          if (q2.empty() || O::distToSegs(p, bandSegs(qp2)) <= tau) continue;
          int c2 = 0; for (auto& Q : q2) if (insideQuad(Q, p)) ++c2;
          Paths64 r2 = mink(pattern, p2, isSum != 0, closed);
          O::Wn w2 = O::winding(p, r2);
          ++judged;
          if (w2.w == (c2 > 0 ? 1 : 0) && !w2.on) ++cured;
        }
      bool persists = !(judged >= 4 && cured >= 2);
      if (!persists) {
        if (getenv("VERIF_DUMP_KNOWN")) fprintf(stderr, "KF-ENG-a: sample %s in %d parallelograms, result winding %d%s\n", O::ptStr(p).c_str(), cnt, w.w, cfg.c_str());
        v.known = "KF-ENG-a"; ST.count("mismatch_vanishing_under_vertex_perturbation"); continue;
      }
      v.fail("sample " + O::ptStr(p) + " lies in " + std::to_string(cnt) + " parallelograms but the result winds " + std::to_string(w.w) + " times around it" + cfg);
      return v;
    }
    bool nonconvex = false;
    for (auto* pp : {&pattern, &path}) { int pos = 0, neg = 0; size_t n = pp->size(); for (size_t k = 0; k < n && n >= 3; ++k) { i128 cr = O::cross((*pp)[k], (*pp)[(k + 1) % n], (*pp)[(k + 2) % n]); if (cr > 0) ++pos; else if (cr < 0) ++neg; } if (pos && neg) nonconvex = true; }
    if (overlapping > 0 && nonconvex) v.nontrivial = true;
    ST.count("samples", S.pts.size());
  }
  return v;
}

// draws random paths until one is in general position (construction first: most draws at M >= 1000 qualify at once)
Path64 gpPath(int nmin, int nmax, int64_t M, bool closedOp) {
  ld sep = 3.0L + (ld)M * ldexpl(1.0L, -40);
  Path64 p;
  for (int attempt = 0; attempt < 30; ++attempt) {
    p = GEN::randomPath(nmin, nmax, M);
    if (G::chance(25)) GEN::axisAlignSome(p, 50);   // exactly horizontal / vertical edges: parallel pattern and path edges, zero-area parallelograms
    if (p.size() <= 1) return p;
    if (closedOp && p.size() == 2) continue;
    Paths64 pp{p};
    std::vector<O::Seg> cs = O::segsOf(pp), os = O::segsOf(pp, false, 0);
    if (closedOp ? O::generalPosition(cs, sep) : O::generalPosition({}, sep, nullptr, &os)) return p;
  }
  return p;
}

Case gen() {
  Case c;
  int64_t M = G::oneOf(std::vector<int64_t>{50, 1000, 100000, int64_t(1) << 30, int64_t(1) << 39});
  int64_t Mp = G::chance(50) ? std::max<int64_t>(10, M / 10) : M;
  bool closed = G::coin();
  c.p["pattern"] = {gpPath(1, 8, Mp, true)};
  c.p["path"] = {gpPath(1, 8, M, closed)};
  if (G::chance(2)) {
    // larger operands: a few hundred parallelograms in one union (size-dependent behaviour)
    c.p["pattern"] = {gpPath(8, 14, 20000, true)};
    c.p["path"] = {gpPath(12, 24, 200000, closed)};
    ST.count("large_operands");
  }
  if (G::chance(1)) {
    // a path of 130-300 vertices (a ring, so that it is in general position) with a small pattern
    c.p["pattern"] = {gpPath(3, 5, 3000, true)};
    c.p["path"] = {GEN::ring((int)G::range(130, 300), G::sym(1000), G::sym(1000), 0.97e5, 1e5, G::coin())};
    ST.count("very_long_path");
  }
  if (G::chance(5)) {
    // pattern an exact axis-parallel square or a square centred on the origin (point-symmetric): Sum and Diff coincide there
    int64_t a = G::range(4, std::max<int64_t>(5, Mp));
    int64_t ox = G::coin() ? -a : G::sym(Mp), oy = ox == -a ? -a : G::sym(Mp);
    c.p["pattern"] = {Path64{Point64(ox, oy), Point64(ox + 2 * a, oy), Point64(ox + 2 * a, oy + 2 * a), Point64(ox, oy + 2 * a)}};
    if (G::coin()) std::reverse(c.p["pattern"][0].begin(), c.p["pattern"][0].end());
    ST.count("square_pattern");
  }
  if (G::chance(3)) {   // at the top of the allowed magnitude: sums reach 2^40
    int64_t T = (int64_t(1) << 39) - 2 * M - 10;
    if (T > 0) { for (auto& q : c.p["path"][0]) { q.x += T; q.y -= T; } ST.count("path_translated_to_2^39"); }
  }
  c.i["closed"] = closed;
  c.i["dp"] = G::chance(70) ? -1 : G::range(0, 4);
  if (G::chance(4)) c.p[G::coin() ? "pattern" : "path"] = {Path64()};   // empty operand: empty result
  return c;
}

}  // namespace

int main(int argc, char** argv) {
  Harness H;
  H.property = "C19";
  H.parts.push_back({"mink", gen, judge, nullptr, true});
  return harnessMain(argc, argv, H);
}
