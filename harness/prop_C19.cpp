// C19 — Minkowski sum and difference are the swept pattern.
#include "gen.hpp"
#include "clipper2/clipper.minkowski.h"

namespace {

struct Quad { Point64 q[4]; };

bool insideQuad(const Quad& Q, const Point64& p) {
  int pos = 0, neg = 0;
  for (int k = 0; k < 4; ++k) {
    i128 cr = O::cross(Q.q[k], Q.q[(k + 1) & 3], p);
    if (cr > 0) ++pos; else if (cr < 0) ++neg; else return false;  // on an edge line: not strictly inside
  }
  return pos == 4 || neg == 4;
}

std::vector<Quad> quadsOf(const Path64& pattern, const Path64& path, bool isSum, bool closed) {
  std::vector<Quad> out;
  size_t np = pattern.size(), n = path.size();
  if (np == 0 || n == 0) return out;
  auto comb = [&](const Point64& a, const Point64& b) { return isSum ? Point64(a.x + b.x, a.y + b.y) : Point64(a.x - b.x, a.y - b.y); };
  size_t edges = closed ? n : n - 1;
  for (size_t e = 0; e < edges; ++e) {
    const Point64 &a0 = path[e], &a1 = path[(e + 1) % n];
    for (size_t h = 0; h < np; ++h) {
      const Point64 &b0 = pattern[h], &b1 = pattern[(h + 1) % np];
      Quad Q{{comb(a0, b0), comb(a1, b0), comb(a1, b1), comb(a0, b1)}};
      Path64 qp(Q.q, Q.q + 4);
      if (O::area2(qp) == 0) continue;  // degenerate parallelogram
      out.push_back(Q);
    }
  }
  return out;
}

Verdict judge(const Case& c) {
  Verdict v;
  if (c.P("pattern").empty() || c.P("path").empty()) { v.discard = true; return v; }
  const Path64& pattern = c.P("pattern")[0];
  const Path64& path = c.P("path")[0];
  bool closed = c.I("closed") != 0;
  int64_t m = std::max(O::maxAbs(c.P("pattern")), O::maxAbs(c.P("path")));
  if (m > (int64_t(1) << 40)) { v.discard = true; return v; }
  // KF-C19-a: an operand smaller than ~4 units sweeps a band only 1-3 grid units wide; the parallelograms handed to the
  // union are then slivers far from general position and the union loses the enclosed hole (cf. KF-C07-b).  Excluded.
  auto diam = [](const Path64& p) { Rect64 r = GetBounds(p); return std::hypot((double)(r.right - r.left), (double)(r.bottom - r.top)); };
  bool thin = pattern.size() >= 2 && path.size() >= 2 && std::min(diam(pattern), diam(path)) < 4.0;
  for (int isSum = 1; isSum >= 0; --isSum) {
    Paths64 res = isSum ? MinkowskiSum(pattern, path, closed) : MinkowskiDiff(pattern, path, closed);
    v.evals++;
    std::string cfg = std::string(isSum ? " [MinkowskiSum" : " [MinkowskiDiff") + (closed ? ",closed]" : ",open]");
    if (pattern.empty() || path.empty()) { if (!res.empty()) { v.fail("empty pattern or path gave a non-empty result" + cfg); return v; } continue; }
    std::vector<Quad> quads = quadsOf(pattern, path, isSum != 0, closed);
    Paths64 qp;
    for (auto& Q : quads) qp.emplace_back(Q.q, Q.q + 4);
    if (quads.empty()) { if (!res.empty()) { v.fail("no non-degenerate parallelogram but a non-empty result" + cfg); return v; } continue; }
    if (thin) { v.known = "KF-C19-a"; ST.count("excluded_operand_smaller_than_4_units"); continue; }
    ld tau = 2.0L + (ld)(2 * m) * ldexpl(1.0L, -42);
    O::Samples S = O::faceSamples(O::segsOf(qp), tau, 700);
    int overlapping = 0;
    for (auto& p : S.pts) {
      int cnt = 0;
      for (auto& Q : quads) if (insideQuad(Q, p)) ++cnt;
      if (cnt >= 2) ++overlapping;
      O::Wn w = O::winding(p, res);
      int want = cnt > 0 ? 1 : 0;
      if (w.w == want && !w.on) continue;
      // near-touch recogniser (KF-ENG-a): the quad set is full of shared edges and vertices; the mismatch must persist
      // when one path vertex moves by one unit (the sample stays farther than tau - 1.5 from the moved edges)
      // Every path vertex is moved by one unit in each of the four directions.  A defect of the Minkowski
      // construction (wrong edge set, sign, orientation handling) leaves the sample wrong under all of these moves;
      // the union's near-touch artefact depends on two particular features nearly touching and vanishes when one of
      // the vertices generating them moves.  Artefact = at least 4 judged moves and at least 2 of them cure it.
      int judged = 0, cured = 0;
      for (size_t vi = 0; vi < path.size(); ++vi)
        for (int d = 0; d < 4; ++d) {
          Path64 p2 = path;
          p2[vi].x += d == 0 ? 1 : d == 1 ? -1 : 0; p2[vi].y += d == 2 ? 1 : d == 3 ? -1 : 0;
          std::vector<Quad> q2 = quadsOf(pattern, p2, isSum != 0, closed);
          Paths64 qp2; for (auto& Q : q2) qp2.emplace_back(Q.q, Q.q + 4);
          if (q2.empty() || O::distToSegs(p, O::segsOf(qp2)) <= tau) continue;
          int c2 = 0; for (auto& Q : q2) if (insideQuad(Q, p)) ++c2;
          Paths64 r2 = isSum ? MinkowskiSum(pattern, p2, closed) : MinkowskiDiff(pattern, p2, closed);
          O::Wn w2 = O::winding(p, r2);
          ++judged;
          if (w2.w == (c2 > 0 ? 1 : 0) && !w2.on) ++cured;
        }
      bool persists = !(judged >= 4 && cured >= 2);
      if (!persists) { v.known = "KF-ENG-a"; ST.count("mismatch_vanishing_under_vertex_perturbation"); continue; }
      v.fail("sample " + O::ptStr(p) + " lies in " + std::to_string(cnt) + " parallelograms but the result winds " + std::to_string(w.w) + " times around it" + cfg);
      return v;
    }
    bool nonconvex = false;
    for (auto* pp : {&pattern, &path}) { int pos = 0, neg = 0; size_t n = pp->size(); for (size_t k = 0; k < n && n >= 3; ++k) { i128 cr = O::cross((*pp)[k], (*pp)[(k + 1) % n], (*pp)[(k + 2) % n]); if (cr > 0) ++pos; else if (cr < 0) ++neg; } if (pos && neg) nonconvex = true; }
    if (overlapping > 0 && nonconvex) v.nontrivial = true;
    ST.count("samples", S.pts.size());
  }
  return v;
}

Case gen() {
  Case c;
  int64_t M = G::oneOf(std::vector<int64_t>{50, 1000, 100000, int64_t(1) << 30, int64_t(1) << 39});
  int64_t Mp = G::chance(50) ? std::max<int64_t>(10, M / 10) : M;
  c.p["pattern"] = {GEN::randomPath(1, 8, Mp)};
  c.p["path"] = {GEN::randomPath(1, 8, M)};
  c.i["closed"] = G::range(0, 1);
  return c;
}

}  // namespace

int main(int argc, char** argv) {
  Harness H;
  H.property = "C19";
  H.parts.push_back({"mink", gen, judge, nullptr, true});
  return harnessMain(argc, argv, H);
}
