// C01 — boolean operations return the region defined by fill rule and clip type.
#include "gen.hpp"
#include "shimconv.hpp"

namespace {

const ClipType CTS[] = {ClipType::Intersection, ClipType::Union, ClipType::Difference, ClipType::Xor};
const FillRule FRS[] = {FillRule::EvenOdd, FillRule::NonZero, FillRule::Positive, FillRule::Negative};

Verdict judge(const Case& c) {
  Verdict v;
  const Paths64& subj = c.P("subj");
  const Paths64& clip = c.P("clip");
  Paths64 all = subj;
  all.insert(all.end(), clip.begin(), clip.end());
  for (auto& p : all) if (p.size() < 3) { v.discard = true; return v; }
  int64_t m = O::maxAbs(all);
  if (all.empty() || m > (int64_t(1) << 61)) { v.discard = true; return v; }
  std::vector<O::Seg> segs = O::segsOf(all);
  int crossings = 0;
  if (!O::generalPosition(segs, 3.0L, &crossings)) { v.discard = true; ST.count("discard_not_general_position"); return v; }
  ld tau = 2.0L + (ld)m * ldexpl(1.0L, -42);
  O::Samples S = O::faceSamples(segs, tau);
  if (S.pts.empty()) { v.discard = true; ST.count("discard_no_samples"); return v; }
  std::vector<int> ws(S.pts.size()), wc(S.pts.size());
  bool anyIn = false, anyOut = false;
  for (size_t k = 0; k < S.pts.size(); ++k) {
    ws[k] = O::winding(S.pts[k], subj).w;
    wc[k] = O::winding(S.pts[k], clip).w;
    if (ws[k] || wc[k]) anyIn = true; else anyOut = true;
  }
  v.nontrivial = crossings > 0 && anyIn && anyOut;
  ST.count("samples_judged_per_config", S.pts.size());
  ST.count("samples_skipped_in_band", S.skippedInBand);
  ST.count(m > (int64_t(1) << 45) ? "mag_2^45..2^61" : m > (int64_t(1) << 22) ? "mag_2^22..2^45" : "mag_le_2^22");
  if (crossings > 0) ST.count("with_crossings");
  bool multi = false;
  for (size_t k = 0; k < S.pts.size(); ++k) if (std::abs(ws[k]) > 1 || std::abs(wc[k]) > 1) multi = true;
  if (multi) ST.count("with_multiple_winding");

  bool G_freeAlt = (subj.size() + clip.size() + (subj.empty() || subj[0].empty() ? 0 : (size_t)(subj[0][0].x & 1))) % 2 == 1;
  shim::BoolArgs ha;
  ha.subj = toShim(subj);
  ha.clip = toShim(clip);
  for (int variant = 0; variant < 4; ++variant)
    for (ClipType ct : CTS)
      for (FillRule fr : FRS)
        for (int pc = 0; pc < 2; ++pc)
          for (int rev = 0; rev < 2; ++rev) {
            Paths64 sol;
            bool ok;
            if (variant == 3) {
              // staged loading on one object: subjects, an Execute, then the clips (and the second half of the subjects)
              if (pc != 0 || rev != 0) continue;
              Clipper64 cl;
              cl.PreserveCollinear(false);
              size_t half = subj.size() > 1 ? subj.size() / 2 : subj.size();
              cl.AddSubject(Paths64(subj.begin(), subj.begin() + half));
              Paths64 first;
              cl.Execute(ClipType::Union, fr, first);
              // the rest arrives either through AddSubject/AddClip or through a ReuseableDataContainer64
              ReuseableDataContainer64 rdc;
              if (G_freeAlt) {
                if (half < subj.size()) rdc.AddPaths(Paths64(subj.begin() + half, subj.end()), PathType::Subject, false);
                rdc.AddPaths(clip, PathType::Clip, false);
                cl.AddReuseableData(rdc);
              } else {
                if (half < subj.size()) cl.AddSubject(Paths64(subj.begin() + half, subj.end()));
                cl.AddClip(clip);
              }
              ok = cl.Execute(ct, fr, sol);
            } else if (variant == 2) {
              // the free-function route (Intersect / Union / Difference / Xor and BooleanOp, default options)
              if (pc != 0 || rev != 0) continue;
              ok = true;
              if (G_freeAlt) sol = BooleanOp(ct, fr, subj, clip);
              else switch (ct) {
                case ClipType::Intersection: sol = Intersect(subj, clip, fr); break;
                case ClipType::Union: sol = clip.empty() ? Union(subj, fr) : Union(subj, clip, fr); break;
                case ClipType::Difference: sol = Difference(subj, clip, fr); break;
                default: sol = Xor(subj, clip, fr); break;
              }
            } else if (variant == 0) {
              Clipper64 cl;
              cl.PreserveCollinear(pc != 0);
              cl.ReverseSolution(rev != 0);
              cl.AddSubject(subj);
              cl.AddClip(clip);
              ok = cl.Execute(ct, fr, sol);
            } else {
              ha.ct = (int)ct; ha.fr = (int)fr; ha.preserveCollinear = pc != 0; ha.reverse = rev != 0;
              shim::BoolResult r = shim_hp::boolop(ha);
              ok = r.ok;
              sol = fromShim(r.closed);
            }
            v.evals++;
            std::string cfg = std::string(" [") + O::ctName(ct) + "," + O::frName(fr) + ",pc=" + std::to_string(pc) +
                              ",rev=" + std::to_string(rev) + (variant == 1 ? ",HI_PRECISION" : variant == 2 ? ",free function" : variant == 3 ? ",staged loading" : "") + "]";
            if (!ok) { v.fail("Execute returned false" + cfg); return v; }
            for (size_t k = 0; k < S.pts.size(); ++k) {
              bool sel = O::op(ct, O::filled(fr, ws[k]), O::filled(fr, wc[k]));
              int want = sel ? (rev ? -1 : 1) : 0;
              O::Wn w = O::winding(S.pts[k], sol);
              if (w.on) {
                v.fail("sample " + O::ptStr(S.pts[k]) + " farther than the tolerance from every input edge lies ON a solution path" + cfg);
                return v;
              }
              if (w.w != want) {
                v.fail("sample " + O::ptStr(S.pts[k]) + " (subject winding " + std::to_string(ws[k]) + ", clip winding " +
                       std::to_string(wc[k]) + ") has solution winding " + std::to_string(w.w) + ", expected " +
                       std::to_string(want) + cfg);
                return v;
              }
            }
          }
  return v;
}

Case genGp() {
  GEN::GpCase g = GEN::gpCase(61);
  ST.count("shape_" + g.shape);
  Case c;
  c.p["subj"] = g.subj;
  c.p["clip"] = g.clip;
  if (g.shape.rfind("large", 0) == 0) {   // measured, because a generator whose large cases were all discarded would be decoration
    Paths64 all = g.subj; all.insert(all.end(), g.clip.begin(), g.clip.end());
    int64_t m = O::maxAbs(all);
    ST.count(O::generalPosition(O::segsOf(all), 3.0L + (ld)m * ldexpl(1.0L, -40)) ? "large_case_in_general_position" : "large_case_discarded");
  }
  return c;
}

}  // namespace

int main(int argc, char** argv) {
  Harness H;
  H.property = "C01";
  H.parts.push_back({"gp", genGp, judge, nullptr, true});
  return harnessMain(argc, argv, H);
}
