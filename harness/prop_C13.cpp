// C13 — results are independent of representation and obey set algebra.
#include "gen.hpp"
#include "shimconv.hpp"

namespace {

const ClipType CTS[] = {ClipType::Intersection, ClipType::Union, ClipType::Difference, ClipType::Xor};
const FillRule FRS[] = {FillRule::EvenOdd, FillRule::NonZero, FillRule::Positive, FillRule::Negative};

Paths64 solve(const Paths64& subj, const Paths64& clip, ClipType ct, FillRule fr, int pc, int rev, int variant, bool& ok) {
  Paths64 sol;
  if (variant == 0) {
    Clipper64 cl;
    cl.PreserveCollinear(pc != 0);
    cl.ReverseSolution(rev != 0);
    cl.AddSubject(subj);
    cl.AddClip(clip);
    ok = cl.Execute(ct, fr, sol);
  } else {
    shim::BoolArgs a;
    a.subj = toShim(subj); a.clip = toShim(clip);
    a.ct = (int)ct; a.fr = (int)fr; a.preserveCollinear = pc != 0; a.reverse = rev != 0;
    shim::BoolResult r = shim_hp::boolop(a);
    ok = r.ok;
    sol = fromShim(r.closed);
  }
  return sol;
}

FillRule swapPN(FillRule fr) {
  if (fr == FillRule::Positive) return FillRule::Negative;
  if (fr == FillRule::Negative) return FillRule::Positive;
  return fr;
}

template <class F>
Paths64 mapPaths(const Paths64& pp, F f) {
  Paths64 r = pp;
  for (auto& p : r) for (auto& q : p) q = f(q);
  return r;
}

Verdict judge(const Case& c) {
  Verdict v;
  const Paths64& subj = c.P("subj");
  const Paths64& clip = c.P("clip");
  Paths64 all = subj;
  all.insert(all.end(), clip.begin(), clip.end());
  for (auto& p : all) if (p.size() < 3) { v.discard = true; return v; }
  int64_t m = O::maxAbs(all);
  if (all.empty() || m > (int64_t(1) << 40)) { v.discard = true; return v; }
  std::vector<O::Seg> segs = O::segsOf(all);
  int crossings = 0;
  if (!O::generalPosition(segs, 3.0L + (ld)m * ldexpl(1.0L, -40), &crossings)) { v.discard = true; ST.count("discard_not_general_position"); return v; }

  // transformation parameters (part of the case)
  int64_t tx = c.I("tx"), ty = c.I("ty"), k = std::max<int64_t>(2, std::min<int64_t>(7, c.I("scale", 2)));
  uint64_t perm = (uint64_t)c.I("perm"), rot = (uint64_t)c.I("rot"), dup = (uint64_t)c.I("dup");
  if (tx > (int64_t(1) << 40) || tx < -(int64_t(1) << 40) || ty > (int64_t(1) << 40) || ty < -(int64_t(1) << 40)) { v.discard = true; return v; }

  // tolerance band wide enough for the original, the translated and the scaled input
  ld mmax = (ld)std::max<int64_t>(m + std::max(std::abs(tx), std::abs(ty)), m);
  ld tau = 2.0L + mmax * ldexpl(1.0L, -42);
  O::Samples S = O::faceSamples(segs, tau, 400);
  if (S.pts.empty()) { v.discard = true; return v; }
  std::vector<int> ws(S.pts.size());
  for (size_t i = 0; i < S.pts.size(); ++i) ws[i] = O::winding(S.pts[i], subj).w;

  // representation variants
  auto permute = [&](const Paths64& pp, uint64_t seed) {
    Paths64 r = pp;
    for (size_t i = r.size(); i > 1; --i) { seed = seed * 6364136223846793005ull + 1442695040888963407ull; std::swap(r[i - 1], r[(seed >> 33) % i]); }
    return r;
  };
  auto rotate = [&](const Paths64& pp, uint64_t seed) {
    Paths64 r = pp;
    for (auto& p : r) { seed = seed * 6364136223846793005ull + 1442695040888963407ull; std::rotate(p.begin(), p.begin() + (seed >> 33) % p.size(), p.end()); }
    return r;
  };
  auto duplicate = [&](const Paths64& pp, uint64_t seed) {
    Paths64 r;
    for (auto& p : pp) {
      Path64 q;
      for (auto& pt : p) { seed = seed * 6364136223846793005ull + 1442695040888963407ull; q.push_back(pt); if ((seed >> 40) % 3 == 0) q.push_back(pt); }
      seed = seed * 6364136223846793005ull + 1442695040888963407ull;
      if ((seed >> 40) % 2 == 0) q.push_back(p[0]);  // closing vertex
      r.push_back(q);
    }
    return r;
  };
  Paths64 sPerm = permute(subj, perm), cPerm = permute(clip, perm ^ 0x9e3779b97f4a7c15ull);
  Paths64 sRot = rotate(subj, rot), cRot = rotate(clip, rot ^ 0x9e3779b97f4a7c15ull);
  Paths64 sDup = duplicate(subj, dup), cDup = duplicate(clip, dup ^ 0x9e3779b97f4a7c15ull);
  Paths64 sRev = subj, cRev = clip;
  for (auto& p : sRev) std::reverse(p.begin(), p.end());
  for (auto& p : cRev) std::reverse(p.begin(), p.end());
  struct Xf { const char* name; std::function<Point64(const Point64&)> f; bool flips; };
  std::vector<Xf> xfs = {
      {"translate", [&](const Point64& p) { return Point64(p.x + tx, p.y + ty); }, false},
      {"transpose", [&](const Point64& p) { return Point64(p.y, p.x); }, true},
      {"mirror", [&](const Point64& p) { return Point64(-p.x, p.y); }, true},
      {"scale", [&](const Point64& p) { return Point64(p.x * k, p.y * k); }, false},
  };
  int whichXf = (int)(c.I("xf", 0) & 3);
  bool changed = sPerm != subj || cPerm != clip || sRot != subj || sDup != subj;

  auto cover = [&](const Paths64& sol, const Point64& p, bool& on) { O::Wn w = O::winding(p, sol); on = w.on; return w.w; };

  for (int variant = 0; variant < 2; ++variant)
    for (FillRule fr : FRS)
      for (int pc = 0; pc < 2; ++pc)
        for (int rev = 0; rev < 2; ++rev) {
          Paths64 base[4];
          for (int ci = 0; ci < 4; ++ci) {
            ClipType ct = CTS[ci];
            std::string cfg = std::string(" [") + O::ctName(ct) + "," + O::frName(fr) + ",pc=" + std::to_string(pc) + ",rev=" + std::to_string(rev) + (variant ? ",HI_PRECISION" : "") + "]";
            bool ok = true, ok2 = true;
            base[ci] = solve(subj, clip, ct, fr, pc, rev, variant, ok);
            if (!ok) { v.fail("Execute returned false" + cfg); return v; }
            Paths64 cb = O::canon(base[ci]);
            v.evals++;
            // exact relations
            if (O::canon(solve(sPerm, cPerm, ct, fr, pc, rev, variant, ok2)) != cb) { v.fail("result changes when the order of paths is permuted" + cfg); return v; }
            if (O::canon(solve(sRot, cRot, ct, fr, pc, rev, variant, ok2)) != cb) { v.fail("result changes when path start vertices are rotated" + cfg); return v; }
            if (O::canon(solve(sDup, cDup, ct, fr, pc, rev, variant, ok2)) != cb) { v.fail("result changes when duplicate/closing vertices are inserted" + cfg); return v; }
            v.evals += 3;
            if (ct != ClipType::Difference) {
              if (O::canon(solve(clip, subj, ct, fr, pc, rev, variant, ok2)) != cb) { v.fail("result changes when subject and clip are swapped" + cfg); return v; }
              v.evals++;
            }
            // region relations: reversal and one geometric transformation
            Paths64 r5 = solve(sRev, cRev, ct, swapPN(fr), pc, rev, variant, ok2);
            const Xf& xf = xfs[whichXf];
            Paths64 r8 = solve(mapPaths(subj, xf.f), mapPaths(clip, xf.f), ct, xf.flips ? swapPN(fr) : fr, pc, rev, variant, ok2);
            v.evals += 2;
            if (O::canon(r5) == cb) ST.count("reversal_exactly_equal"); else ST.count("reversal_region_equal_only");
            for (size_t i = 0; i < S.pts.size(); ++i) {
              bool on = false, on2 = false;
              int w0 = cover(base[ci], S.pts[i], on);
              if (cover(r5, S.pts[i], on2) != w0 || on2) {
                v.fail("reversing all paths (Positive<->Negative) changes the coverage at " + O::ptStr(S.pts[i]) + cfg);
                return v;
              }
              if (cover(r8, xf.f(S.pts[i]), on2) != w0 || on2) {
                v.fail(std::string("transformation '") + xf.name + "' does not transform the result accordingly at " + O::ptStr(S.pts[i]) + cfg);
                return v;
              }
            }
          }
          // set algebra on the four base results of this (fill rule, options)
          std::string cfg = std::string(" [") + O::frName(fr) + ",pc=" + std::to_string(pc) + ",rev=" + std::to_string(rev) + (variant ? ",HI_PRECISION" : "") + "]";
          int sgn = rev ? -1 : 1;
          for (size_t i = 0; i < S.pts.size(); ++i) {
            bool on;
            int wi = cover(base[0], S.pts[i], on), wu = cover(base[1], S.pts[i], on), wd = cover(base[2], S.pts[i], on), wx = cover(base[3], S.pts[i], on);
            if (wx != wu - wi) { v.fail("Xor != Union minus Intersection at " + O::ptStr(S.pts[i]) + cfg); return v; }
            if (wd + wi != (O::filled(fr, ws[i]) ? sgn : 0)) { v.fail("Difference and Intersection do not partition the subject at " + O::ptStr(S.pts[i]) + cfg); return v; }
          }
        }
  v.nontrivial = crossings > 0 && changed;
  ST.count(std::string("xf_") + xfs[whichXf].name);
  ST.count("samples_per_config", S.pts.size());
  return v;
}

Case gen() {
  GEN::GpCase g = GEN::gpCase(40);
  ST.count("shape_" + g.shape);
  Case c;
  c.p["subj"] = g.subj;
  c.p["clip"] = g.clip;
  int64_t m = O::maxAbs(g.subj);
  m = std::max(m, O::maxAbs(g.clip));
  int64_t room = (int64_t(1) << 40);
  c.i["tx"] = G::sym(G::coin() ? room : std::min<int64_t>(room, 4 * m + 10));
  c.i["ty"] = G::sym(G::coin() ? room : std::min<int64_t>(room, 4 * m + 10));
  c.i["scale"] = G::range(2, 7);
  c.i["perm"] = (int64_t)(G::bits64() >> 1);
  c.i["rot"] = (int64_t)(G::bits64() >> 1);
  c.i["dup"] = (int64_t)(G::bits64() >> 1);
  c.i["xf"] = G::range(0, 3);
  return c;
}

// part "exact": the exact-equality clauses only, on many small inputs with several paths per operand.  Loading variants:
// one AddSubject call / one call per path / through a ReuseableDataContainer64; representation variants: path order,
// start vertex (random, and rotated to the vertex of largest y, where the sweep starts the path), duplicated vertices,
// closing vertex (alone and combined with the rotations).
Verdict judgeExact(const Case& c) {
  Verdict v;
  const Paths64& subj = c.P("subj");
  const Paths64& clip = c.P("clip");
  Paths64 all = subj;
  all.insert(all.end(), clip.begin(), clip.end());
  if (all.empty()) { v.discard = true; return v; }
  for (auto& p : all) if (p.size() < 3) { v.discard = true; return v; }
  int64_t m = O::maxAbs(all);
  int crossings = 0;
  if (!O::generalPosition(O::segsOf(all), 3.0L + (ld)m * ldexpl(1.0L, -40), &crossings)) { v.discard = true; ST.count("discard_not_general_position"); return v; }
  uint64_t seed = (uint64_t)c.I("perm");
  auto next = [&]() { seed = seed * 6364136223846793005ull + 1442695040888963407ull; return seed >> 33; };
  auto permute = [&](Paths64 r) { for (size_t i = r.size(); i > 1; --i) std::swap(r[i - 1], r[next() % i]); return r; };
  auto rotRandom = [&](Paths64 r) { for (auto& p : r) std::rotate(p.begin(), p.begin() + next() % p.size(), p.end()); return r; };
  auto rotToMaxY = [&](Paths64 r) { for (auto& p : r) { size_t b = 0; for (size_t k = 1; k < p.size(); ++k) if (p[k].y > p[b].y || (p[k].y == p[b].y && p[k].x < p[b].x)) b = k; std::rotate(p.begin(), p.begin() + b, p.end()); } return r; };
  auto rotToMinY = [&](Paths64 r) { for (auto& p : r) { size_t b = 0; for (size_t k = 1; k < p.size(); ++k) if (p[k].y < p[b].y) b = k; std::rotate(p.begin(), p.begin() + b, p.end()); } return r; };
  auto closing = [&](Paths64 r) { for (auto& p : r) { p.push_back(p[0]); if (next() % 3 == 0) p.push_back(p[0]); } return r; };
  auto dups = [&](Paths64 r) { for (auto& p : r) { Path64 q; for (auto& pt : p) { q.push_back(pt); if (next() % 3 == 0) q.push_back(pt); } p = q; } return r; };
  struct Var { const char* name; Paths64 s, c; };
  std::vector<Var> vars = {
      {"path order permuted", permute(subj), permute(clip)},
      {"start vertices rotated", rotRandom(subj), rotRandom(clip)},
      {"paths started at their vertex of largest y", rotToMaxY(subj), rotToMaxY(clip)},
      {"paths started at their vertex of smallest y", rotToMinY(subj), rotToMinY(clip)},
      {"closing vertices appended", closing(subj), closing(clip)},
      {"closing vertices appended to paths started at their vertex of largest y", closing(rotToMaxY(subj)), closing(rotToMaxY(clip))},
      {"closing vertices appended to paths started at their vertex of smallest y", closing(rotToMinY(subj)), closing(rotToMinY(clip))},
      {"vertices duplicated", dups(subj), dups(clip)},
      {"vertices duplicated and closing vertices appended, order permuted", permute(closing(dups(subj))), permute(closing(dups(clip)))},
  };
  auto run = [&](const Paths64& s, const Paths64& cl, ClipType ct, FillRule fr, int pc, int load) {
    Clipper64 k;
    k.PreserveCollinear(pc != 0);
    ReuseableDataContainer64 rdc;
    if (load == 0) { k.AddSubject(s); k.AddClip(cl); }
    else if (load == 1) { for (auto& p : s) k.AddSubject(Paths64{p}); for (auto& p : cl) k.AddClip(Paths64{p}); }
    else { rdc.AddPaths(s, PathType::Subject, false); rdc.AddPaths(cl, PathType::Clip, false); k.AddReuseableData(rdc); }
    Paths64 sol;
    k.Execute(ct, fr, sol);
    v.evals++;
    return O::canon(sol);
  };
  for (ClipType ct : CTS)
    for (FillRule fr : FRS)
      for (int pc = 0; pc < 2; ++pc) {
        std::string cfg = std::string(" [") + O::ctName(ct) + "," + O::frName(fr) + ",pc=" + std::to_string(pc) + "]";
        Paths64 base = run(subj, clip, ct, fr, pc, 0);
        for (int load = 1; load < 3; ++load)
          if (run(subj, clip, ct, fr, pc, load) != base) { v.fail(std::string("result changes when the paths are loaded ") + (load == 1 ? "one AddSubject/AddClip call per path" : "through a ReuseableDataContainer64") + cfg); return v; }
        for (auto& var : vars)
          for (int load = 0; load < 3; ++load)
            if (run(var.s, var.c, ct, fr, pc, load) != base) {
              v.fail(std::string("result changes with: ") + var.name + (load == 1 ? " (one call per path)" : load == 2 ? " (ReuseableDataContainer64)" : " (one call)") + cfg);
              return v;
            }
        if (ct != ClipType::Difference && run(clip, subj, ct, fr, pc, 0) != base) { v.fail("result changes when subject and clip are swapped" + cfg); return v; }
      }
  v.nontrivial = subj.size() + clip.size() >= 3;
  if (crossings > 0) ST.count("with_crossings");
  ST.count("paths_" + std::to_string(std::min<size_t>(subj.size() + clip.size(), 8)));
  return v;
}

Case genExact() {
  Case c;
  int64_t R = G::oneOf(std::vector<int64_t>{40, 100, 100, 300, 1000, 100000});
  int ns = (int)G::range(1, 3), nc = (int)G::range(0, 3);
  Paths64 s, cl;
  int vmax = (int)G::range(3, 6);
  for (int k = 0; k < ns; ++k) s.push_back(GEN::randomPath(3, vmax, R));
  for (int k = 0; k < nc; ++k) cl.push_back(GEN::randomPath(3, vmax, R));
  if (G::chance(30)) { for (auto& p : s) GEN::axisAlignSome(p, 30); for (auto& p : cl) GEN::axisAlignSome(p, 30); }
  c.p["subj"] = s; c.p["clip"] = cl;
  c.i["perm"] = (int64_t)(G::bits64() >> 1);
  return c;
}

}  // namespace

int main(int argc, char** argv) {
  Harness H;
  H.property = "C13";
  H.parts.push_back({"gp", gen, judge, nullptr, true});
  H.parts.push_back({"exact", genExact, judgeExact, nullptr, true});
  return harnessMain(argc, argv, H);
}
