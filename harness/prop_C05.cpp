// C05 — open subject paths are cut exactly at the clip region boundary.
#include "gen.hpp"

namespace {

const ClipType CTS[] = {ClipType::Intersection, ClipType::Union, ClipType::Difference, ClipType::Xor};
const FillRule FRS[] = {FillRule::EvenOdd, FillRule::NonZero, FillRule::Positive, FillRule::Negative};

struct PtL { ld x, y; };

// winding number of a real point w.r.t. closed paths; margin = distance to the nearest edge (how safely decided)
int windingL(const PtL& p, const Paths64& paths, ld& margin) {
  int w = 0;
  for (auto& path : paths) {
    size_t n = path.size();
    for (size_t i = 0; i < n; ++i) {
      const Point64& a = path[i];
      const Point64& b = path[(i + 1) % n];
      ld ax = a.x, ay = a.y, bx = b.x, by = b.y;
      margin = std::min(margin, O::distPtSeg(p.x, p.y, a, b));
      if ((ay <= p.y) == (by <= p.y)) continue;
      ld cr = (bx - ax) * (p.y - ay) - (by - ay) * (p.x - ax);
      if (ay <= p.y) { if (cr > 0) ++w; } else { if (cr < 0) --w; }
    }
  }
  return w;
}

struct Interval { ld t0, t1; bool judged; bool in[4][4]; PtL mid; ld allow0 = 0, allow1 = 0; };
struct OpenSeg { Point64 a, b; ld len; std::vector<Interval> iv; int crossings = 0; };

ld distPL(const PtL& p, const Point64& a, const Point64& b) { return O::distPtSeg(p.x, p.y, a, b); }

Verdict judge(const Case& c) {
  Verdict v;
  // route (chosen per case): Clipper64, or ClipperD with precision p judged in ClipperD's internal grid (input times the
  // smallest power of two above 10^p; ClipperD receives the generated input, its output is multiplied back); and
  // ReverseSolution on or off (the direction of open pieces is not asserted)
  int dprec = (int)c.I("dprec", -1);
  bool rev = c.I("rev", 0) != 0;
  double dsc = 1;
  if (dprec >= 0) {
    dsc = 2; while (dsc <= std::pow(10.0, dprec)) dsc *= 2;
    int64_t m0 = std::max(O::maxAbs(c.P("subj")), std::max(O::maxAbs(c.P("clip")), O::maxAbs(c.P("open"))));
    if ((double)m0 * dsc > 4.0e9) { dprec = -1; dsc = 1; }
  }
  auto scaled = [&](const Paths64& pp) { Paths64 r = pp; for (auto& p : r) for (auto& q : p) { q.x *= (int64_t)dsc; q.y *= (int64_t)dsc; } return r; };
  const Paths64 subjS = scaled(c.P("subj")), clipS = scaled(c.P("clip")), openS = scaled(c.P("open"));
  const Paths64& subj = dprec >= 0 ? subjS : c.P("subj");
  const Paths64& clip = dprec >= 0 ? clipS : c.P("clip");
  const Paths64& open = dprec >= 0 ? openS : c.P("open");
  if (dprec >= 0) ST.count("route_ClipperD_precision_" + std::to_string(dprec));
  if (rev) ST.count("reverse_solution");
  auto fromD = [&](const PathsD& pp) { Paths64 r; for (auto& p : pp) { Path64 q; for (auto& pt : p) q.emplace_back((int64_t)std::llround(pt.x * dsc), (int64_t)std::llround(pt.y * dsc)); r.push_back(q); } return r; };
  Paths64 closed = subj;
  closed.insert(closed.end(), clip.begin(), clip.end());
  Paths64 all = closed;
  all.insert(all.end(), open.begin(), open.end());
  for (auto& p : closed) if (p.size() < 3) { v.discard = true; return v; }
  for (auto& p : open) if (p.size() < 2) { v.discard = true; return v; }
  int64_t m = O::maxAbs(all);
  if (open.empty() || m > (int64_t(1) << 32)) { v.discard = true; return v; }
  std::vector<O::Seg> csegs = O::segsOf(closed), osegs = O::segsOf(open, false, (int)closed.size());
  if (!O::generalPosition(csegs, 3.0L, nullptr, &osegs)) { v.discard = true; ST.count("discard_not_general_position"); return v; }

  // reference: cut every open segment at its crossings with closed edges
  std::vector<OpenSeg> segs;
  ld unjudgedLen = 0, knownTol = 0;
  int totalCross = 0;
  bool richSeg = false;
  for (auto& os : osegs) {
    OpenSeg s{os.a, os.b, hypotl((ld)os.b.x - os.a.x, (ld)os.b.y - os.a.y), {}, 0};
    // (parameter, allowance): the engine snaps crossings to the integer grid / scanlines, i.e. it moves them by
    // up to ~2 units PERPENDICULAR to the closed edge, which is 2/sin(angle) ALONG the open segment
    std::vector<std::pair<ld, ld>> tsa = {{0.0L, 0.0L}, {1.0L, 0.0L}};
    for (auto& cs : csegs)
      if (O::properCross(os.a, os.b, cs.a, cs.b)) {
        i128 den = ((i128)os.b.x - os.a.x) * ((i128)cs.b.y - cs.a.y) - ((i128)os.b.y - os.a.y) * ((i128)cs.b.x - cs.a.x);
        i128 num = ((i128)cs.a.x - os.a.x) * ((i128)cs.b.y - cs.a.y) - ((i128)cs.a.y - os.a.y) * ((i128)cs.b.x - cs.a.x);
        ld sinA = fabsl((ld)den) / (s.len * hypotl((ld)cs.b.x - cs.a.x, (ld)cs.b.y - cs.a.y));
        ld allow = 2.0L / sinA + 1.5L;
        tsa.push_back({(ld)num / (ld)den, allow});
        knownTol += std::max(3.0L, allow);
        s.crossings++;
      }
    totalCross += s.crossings;
    std::sort(tsa.begin(), tsa.end());
    std::vector<ld> ts;
    for (auto& ta : tsa) ts.push_back(ta.first);
    bool anyIn = false, anyOut = false;
    for (size_t k = 0; k + 1 < ts.size(); ++k) {
      Interval iv;
      iv.t0 = ts[k]; iv.t1 = ts[k + 1];
      ld L = (iv.t1 - iv.t0) * s.len;
      ld tm = (iv.t0 + iv.t1) / 2;
      iv.mid = {(ld)s.a.x + tm * ((ld)s.b.x - s.a.x), (ld)s.a.y + tm * ((ld)s.b.y - s.a.y)};
      ld margin = 1e30L;
      int ws = windingL(iv.mid, subj, margin), wc = windingL(iv.mid, clip, margin);
      iv.allow0 = tsa[k].second; iv.allow1 = tsa[k + 1].second;
      bool shallow = L <= 2 * std::max(iv.allow0, iv.allow1);
      iv.judged = L > 6.0L && margin > 1e-3L && !shallow;
      if (!iv.judged) { unjudgedLen += L; ST.count(L > 6.0L && shallow ? "intervals_not_judged_shallow_crossing_KF-C05-a" : "intervals_not_judged"); }
      for (int ci = 0; ci < 4; ++ci)
        for (int fi = 0; fi < 4; ++fi) {
          bool inS = O::filled(FRS[fi], ws), inC = O::filled(FRS[fi], wc);
          bool sel;
          switch (CTS[ci]) {
            case ClipType::Intersection: sel = inC; break;
            case ClipType::Union: sel = !inS && !inC; break;
            default: sel = !inC; break;  // Difference, Xor
          }
          iv.in[ci][fi] = sel;
        }
      if (iv.judged) { if (iv.in[0][1]) anyIn = true; else anyOut = true; }
      s.iv.push_back(iv);
    }
    if (s.crossings >= 2 && anyIn && anyOut) richSeg = true;
    segs.push_back(s);
  }
  v.nontrivial = richSeg;
  ST.count("open_closed_crossings", totalCross);

  // samples for clause (iv)
  ld tau = 2.0L + (ld)m * ldexpl(1.0L, -42);
  O::Samples S = O::faceSamples(csegs, tau, 300);

  for (int ci = 0; ci < 4; ++ci)
    for (int fi = 0; fi < 4; ++fi)
      for (int tree = 0; tree < 2; ++tree) {
        ClipType ct = CTS[ci];
        FillRule fr = FRS[fi];
        std::string cfg = std::string(" [") + O::ctName(ct) + "," + O::frName(fr) + (tree ? ",polytree" : ",paths") + "]";
        Paths64 solC, solO;
        bool ok;
        if (dprec < 0) {
          Clipper64 cl;
          cl.ReverseSolution(rev);
          cl.AddSubject(subj); cl.AddClip(clip); cl.AddOpenSubject(open);
          if (tree) { PolyTree64 t; ok = cl.Execute(ct, fr, t, solO); solC = PolyTreeToPaths64(t); }
          else ok = cl.Execute(ct, fr, solC, solO);
        } else {
          ClipperD cl(dprec);
          cl.ReverseSolution(rev);
          cl.AddSubject(TransformPaths<double, int64_t>(c.P("subj"))); cl.AddClip(TransformPaths<double, int64_t>(c.P("clip"))); cl.AddOpenSubject(TransformPaths<double, int64_t>(c.P("open")));
          PathsD sc2, so2;
          if (tree) { PolyTreeD t; ok = cl.Execute(ct, fr, t, so2); sc2 = PolyTreeToPathsD(t); }
          else ok = cl.Execute(ct, fr, sc2, so2);
          solC = fromD(sc2); solO = fromD(so2);
        }
        v.evals++;
        if (!ok) { v.fail("Execute returned false" + cfg); return v; }
        // (i) locality + best-match association of every solution segment
        struct SolSeg { Point64 a, b; int owner; };
        std::vector<SolSeg> ssegs;
        ld solLen = 0;
        for (auto& p : solO) {
          if (p.size() == 1) {  // a single point must still lie on an open subject
            ld best = 1e30L;
            for (auto& s : segs) best = std::min(best, O::distPtSeg(p[0], s.a, s.b));
            if (best > 1.5L) { v.fail("open solution point " + O::ptStr(p[0]) + " is not on any open subject" + cfg); return v; }
            continue;
          }
          for (size_t k = 0; k + 1 < p.size(); ++k) {
            int owner = -1;
            ld best = 1e30L;
            for (size_t si = 0; si < segs.size(); ++si) {
              ld d = std::max(O::distPtSeg(p[k], segs[si].a, segs[si].b), O::distPtSeg(p[k + 1], segs[si].a, segs[si].b));
              if (d < best) { best = d; owner = (int)si; }
            }
            if (best > 1.5L) {
              v.fail("open solution segment " + O::ptStr(p[k]) + "-" + O::ptStr(p[k + 1]) + " does not lie within 1.5 units of one open subject segment" + cfg);
              return v;
            }
            ssegs.push_back({p[k], p[k + 1], owner});
            solLen += hypotl((ld)p[k + 1].x - p[k].x, (ld)p[k + 1].y - p[k].y);
          }
        }
        // (ii) coverage both ways, (iii) length
        ld expectLen = 0;
        for (size_t si = 0; si < segs.size(); ++si)
          for (auto& iv : segs[si].iv) {
            bool in = iv.in[ci][fi];
            if (in) expectLen += (iv.t1 - iv.t0) * segs[si].len;
            if (!iv.judged) continue;
            bool covered = false;
            for (auto& ss : ssegs) {
              // a solution segment counts for this subject segment if it is its best match, or if it also fits it
              bool fits = ss.owner == (int)si ||
                          std::max(O::distPtSeg(ss.a, segs[si].a, segs[si].b), O::distPtSeg(ss.b, segs[si].a, segs[si].b)) <= 1.5L;
              if (in ? fits : ss.owner == (int)si)
                if (distPL(iv.mid, ss.a, ss.b) <= 1.5L) { covered = true; break; }
            }
            if (covered != in) {
              char buf[200];
              snprintf(buf, sizeof buf, "(%.2Lf,%.2Lf)", iv.mid.x, iv.mid.y);
              v.fail(std::string("open subject point ") + buf + (in ? " should be in the open solution but is not" : " should NOT be in the open solution but is") + cfg);
              return v;
            }
          }
        // intervals not judged may be classified wrongly: their whole length goes into the tolerance
        ld tol = 3.0L * totalCross + unjudgedLen + 1e-6L * (ld)m;
        if (fabsl(solLen - expectLen) > tol && fabsl(solLen - expectLen) <= knownTol + unjudgedLen + 1e-6L * (ld)m) {
          v.known = "KF-C05-a";
          ST.count("length_off_by_more_than_3_per_cut_but_within_2_over_sin_angle");
        } else if (fabsl(solLen - expectLen) > tol) {
          char buf[200];
          snprintf(buf, sizeof buf, "open solution length %.2Lf differs from exact length %.2Lf by more than %.2Lf", solLen, expectLen, tol);
          v.fail(buf + cfg);
          return v;
        }
        // (iv) closed solution region unchanged by the presence of open subjects
        Clipper64 c2;
        c2.ReverseSolution(rev);
        c2.AddSubject(subj); c2.AddClip(clip);
        Paths64 solC2;
        c2.Execute(ct, fr, solC2);
        if (O::canon(solC2) == O::canon(solC)) ST.count("closed_result_exactly_equal");
        else {
          ST.count("closed_result_region_equal_only");
          for (auto& pt : S.pts)
            if (O::winding(pt, solC).w != O::winding(pt, solC2).w) {
              v.fail("adding open subjects changes the closed solution region at " + O::ptStr(pt) + cfg);
              return v;
            }
        }
        // ... also through the overloads that return closed paths only (open subjects loaded, no open output requested)
        if (!tree) {
          auto sameRegion = [&](const Paths64& a, const Paths64& b, int mul) {
            if (O::canon(a) == O::canon(b)) return true;
            for (auto& pt : S.pts) { Point64 q(pt.x * mul, pt.y * mul); if (O::winding(q, a).w != O::winding(q, b).w) return false; }
            return true;
          };
          Clipper64 c3; c3.ReverseSolution(rev); c3.AddSubject(subj); c3.AddClip(clip); c3.AddOpenSubject(open);
          Paths64 solC3;
          if (!c3.Execute(ct, fr, solC3)) { v.fail("Execute(closed only) returned false" + cfg); return v; }
          if (!sameRegion(solC3, solC2, 1)) { v.fail("Execute(ct, fr, closed) with open subjects loaded: closed region differs from the result without open subjects" + cfg); return v; }
          Clipper64 c4; c4.ReverseSolution(rev); c4.AddSubject(subj); c4.AddClip(clip); c4.AddOpenSubject(open);
          PolyTree64 t4;
          if (!c4.Execute(ct, fr, t4)) { v.fail("Execute(tree only) returned false" + cfg); return v; }
          if (!sameRegion(PolyTreeToPaths64(t4), solC2, 1)) { v.fail("Execute(ct, fr, tree) with open subjects loaded: closed region differs from the result without open subjects" + cfg); return v; }
          // ClipperD, precision 0 (half-unit grid): compare in doubled coordinates
          auto dbl = [](const PathsD& pp) { Paths64 r; for (auto& p : pp) { Path64 q; for (auto& pt : p) q.emplace_back((int64_t)std::llround(pt.x * 2), (int64_t)std::llround(pt.y * 2)); r.push_back(q); } return r; };
          PathsD sd = TransformPaths<double, int64_t>(subj), cdd = TransformPaths<double, int64_t>(clip), od = TransformPaths<double, int64_t>(open);
          ClipperD d1(0), d2(0); d1.ReverseSolution(rev); d2.ReverseSolution(rev); d1.AddSubject(sd); d1.AddClip(cdd); d1.AddOpenSubject(od); d2.AddSubject(sd); d2.AddClip(cdd);
          PathsD r1, r2;
          if (!d1.Execute(ct, fr, r1) || !d2.Execute(ct, fr, r2)) { v.fail("ClipperD::Execute(closed only) returned false" + cfg); return v; }
          if (!sameRegion(dbl(r1), dbl(r2), 2)) { v.fail("ClipperD::Execute(ct, fr, closed) with open subjects loaded: closed region differs from the result without open subjects" + cfg); return v; }
          v.evals += 3;
        }
      }
  return v;
}

Case gen() {
  static const std::vector<int64_t> Rs = {1 << 10, 1 << 13, 1 << 16, 1 << 20, 1 << 20};
  int64_t R = G::oneOf(Rs);
  GEN::GpCase g = GEN::gpCandidate(R);
  Case c;
  c.p["subj"] = g.subj;
  c.p["clip"] = g.clip;
  Paths64 open;
  int n = (int)G::range(1, 3);
  for (int k = 0; k < n; ++k) open.push_back(GEN::randomPath(2, 8, R + R / 4));
  if (R >= (1 << 16) && G::chance(4)) {   // many open subjects / one long open subject (size-dependent bookkeeping of open output)
    open.clear();
    if (G::coin()) { int m = (int)G::range(8, 20); for (int k = 0; k < m; ++k) open.push_back(GEN::randomPath(2, 5, R + R / 4)); }
    else if (G::coin()) open.push_back(GEN::randomPath(30, 80, R + R / 4));
    else open.push_back(GEN::zigzag(GEN::boundarySize(), R + R / 4));   // vertex counts at and around 64/128/256
    ST.count("many_or_long_open_subjects");
  }
  if (G::chance(35)) { int pct = (int)G::range(20, 60); for (auto& p : open) GEN::axisAlignSome(p, pct); }   // horizontal / vertical open segments
  if (G::chance(15)) {
    // almost horizontal open segments (|dx| > 100 |dy|) right across the scene: the engine corrects intersection points
    // of such edges that fall outside the scanbeam, a path ordinary slopes never take
    int m = (int)G::range(1, 3);
    for (int k = 0; k < m; ++k) {
      int64_t y0 = G::sym(R), dy = G::sym(std::max<int64_t>(1, R / 150));
      Path64 p = {Point64(-R - G::range(0, R / 4), y0), Point64(R + G::range(0, R / 4), y0 + dy)};
      if (G::coin()) p.push_back(Point64(p[1].x - G::range(1, R), p[1].y + G::sym(R / 2)));
      if (G::coin()) std::reverse(p.begin(), p.end());
      open.push_back(p);
      // a small far-away subject triangle with a vertex at (almost) the level of the shallow segment: a scanline right
      // next to its crossings with the closed edges, without coming near the segment itself
      if (G::chance(70)) {
        int64_t yv = y0 + G::range(0, 1) * dy + G::sym(2), xv = 3 * R + G::range(0, R);
        c.p["subj"].push_back(Path64{Point64(xv, yv), Point64(xv + 50 + G::range(0, 50), yv + 40 + G::range(0, 30)), Point64(xv + G::range(5, 20), yv + 90 + G::range(0, 30))});
      }
    }
    ST.count("almost_horizontal_open_segments");
  }
  c.p["open"] = open;
  c.i["rev"] = G::chance(30);
  if (G::chance(25)) c.i["dprec"] = G::range(0, 3);
  ST.count("shape_" + g.shape);
  return c;
}

}  // namespace

int main(int argc, char** argv) {
  Harness H;
  H.property = "C05";
  H.parts.push_back({"gp", gen, judge, nullptr, true});
  return harnessMain(argc, argv, H);
}
