// Shared pieces of the offsetting oracles (C06, C07, C15, C16).
#pragma once
#include "gen.hpp"

namespace OFS {

inline double arcTolOf(double arcTolerance, double absDelta) {
  return arcTolerance > 1e-12 ? std::min(arcTolerance, absDelta) : 0.002 * absDelta;
}
inline double tolOf(double arcTolerance, double absDelta) { return arcTolOf(arcTolerance, absDelta) + 2.0 + 0.001 * absDelta; }
inline double joinFactor(JoinType jt, double miterLimit) {
  switch (jt) {
    case JoinType::Round: case JoinType::Bevel: return 1.0;
    case JoinType::Square: return std::sqrt(2.0);
    default: return std::max(miterLimit, std::sqrt(2.0));
  }
}
inline const char* jtName(JoinType jt) { static const char* n[] = {"Square", "Bevel", "Round", "Miter"}; return n[(int)jt]; }
inline const char* etName(EndType et) { static const char* n[] = {"Polygon", "Joined", "Butt", "Square", "Round"}; return n[(int)et]; }

// ---------------------------------------------------------------------------
// G-poly: simple polygons with holes, by construction (star-shaped rings with
// stratified angles; holes scaled to the measured inradius of their container)
// ---------------------------------------------------------------------------
inline double inradiusAround(const Path64& ring, int64_t cx, int64_t cy) {
  ld best = 1e300L;
  Point64 c(cx, cy);
  for (size_t k = 0; k < ring.size(); ++k) best = std::min(best, O::distPtSeg(c, ring[k], ring[(k + 1) % ring.size()]));
  return (double)best;
}
// appends ring + recursively holes/islands; ccw = orientation of this ring
inline void addNested(Paths64& out, int64_t cx, int64_t cy, double rmax, bool ccw, int depth) {
  int n = (int)G::range(4, 12);
  Path64 ring = GEN::ring(n, cx, cy, 0.45 * rmax, rmax, ccw);
  out.push_back(ring);
  if (depth <= 0 || !G::chance(55)) return;
  double inr = inradiusAround(ring, cx, cy);
  double hr = 0.8 * inr * G::real(0.4, 1.0);
  if (hr < 12) return;
  addNested(out, cx, cy, hr, !ccw, depth - 1);
}
inline Paths64 polyWithHoles(double R, bool outerPositive) {
  Paths64 out;
  int npoly = (int)G::range(1, 3);
  for (int k = 0; k < npoly; ++k) {
    // disjoint discs on a coarse row
    int64_t cx = (int64_t)((k - (npoly - 1) / 2.0) * 2.6 * R) + G::sym((int64_t)(0.1 * R));
    int64_t cy = G::sym((int64_t)(0.3 * R));
    addNested(out, cx, cy, R * G::real(0.5, 1.0), outerPositive, 2);
  }
  return out;
}
// exact validity: every turning angle >= minDeg away from a full reversal, every edge >= 2 units, rings simple and
// pairwise non-touching
inline bool validSimple(const Paths64& pp, double minDeg, bool closed = true) {
  std::vector<O::Seg> segs = O::segsOf(pp, closed);
  for (auto& s : segs) if (O::dot(s.a, s.b, s.b) < 4) return false;
  double cosLimit = std::cos(minDeg * 3.141592653589793 / 180.0);
  for (auto& p : pp) {
    size_t n = p.size();
    if (closed && n < 3) return false;
    for (size_t k = 0; k < n; ++k) {
      if (!closed && (k == 0 || k == n - 1)) continue;
      const Point64 &a = p[(k + n - 1) % n], &b = p[k], &c = p[(k + 1) % n];
      // angle between (a-b) and (c-b): reversal means angle 0
      ld ux = (ld)a.x - b.x, uy = (ld)a.y - b.y, vx = (ld)c.x - b.x, vy = (ld)c.y - b.y;
      ld cs = (ux * vx + uy * vy) / (hypotl(ux, uy) * hypotl(vx, vy));
      if (cs > cosLimit) return false;
    }
  }
  if (!closed) return true;
  for (size_t i = 0; i < segs.size(); ++i)
    for (size_t j = i + 1; j < segs.size(); ++j) {
      const O::Seg &s = segs[i], &t = segs[j];
      bool adjacent = s.path == t.path && (t.idx == s.idx + 1 || (s.idx == 0 && t.idx == (int)pp[s.path].size() - 1));
      if (adjacent) {
        // adjacent edges share exactly one vertex and must not overlap
        continue;
      }
      if (O::segsTouch(s.a, s.b, t.a, t.b)) return false;
    }
  return true;
}

// signed distance of an integer point to the region {winding != 0} of simple polygons with holes
inline ld signedDist(const Point64& p, const Paths64& region, const std::vector<O::Seg>& segs) {
  ld d = O::distToSegs(p, segs);
  O::Wn w = O::winding(p, region);
  if (w.on) return 0;
  return w.w != 0 ? -d : d;
}

// sample points: jittered grid over the inflated bounding box + probes near the expected offset curve
inline std::vector<Point64> samplePoints(const Paths64& pp, bool closed, double absDelta, double factor, double tol, int gridN) {
  std::vector<Point64> pts;
  Rect64 bb = GetBounds(pp);
  double pad = absDelta * factor + tol + 6;
  double l = (double)bb.left - pad, r = (double)bb.right + pad, t = (double)bb.top - pad, b = (double)bb.bottom + pad;
  for (int i = 0; i < gridN; ++i)
    for (int j = 0; j < gridN; ++j) {
      double x = l + (r - l) * (i + G::unit()) / gridN, y = t + (b - t) * (j + G::unit()) / gridN;
      pts.emplace_back((int64_t)llround(x), (int64_t)llround(y));
    }
  // probes at distance |delta| * f +- (tol + 1..4) from edge midpoints and vertices, both sides
  for (auto& p : pp) {
    size_t n = p.size();
    size_t m = closed ? n : (n > 0 ? n - 1 : 0);
    for (size_t k = 0; k < m; ++k) {
      const Point64 &a = p[k], &b2 = p[(k + 1) % n];
      double dx = (double)(b2.x - a.x), dy = (double)(b2.y - a.y), len = std::hypot(dx, dy);
      if (len == 0) continue;
      double nx = dy / len, ny = -dx / len;
      double tpar = G::real(0.15, 0.85);
      double mx = a.x + dx * tpar, my = a.y + dy * tpar;
      for (double f : {1.0, factor}) {
        for (int side = -1; side <= 1; side += 2) {
          for (int inout = -1; inout <= 1; inout += 2) {
            double dist = absDelta * f + inout * (tol + G::real(1.0, 4.0));
            if (dist < 0) continue;
            pts.emplace_back((int64_t)llround(mx + side * nx * dist), (int64_t)llround(my + side * ny * dist));
          }
        }
        if (f == factor) break;
      }
      // around the vertex a: along a few directions
      for (int q = 0; q < 3; ++q) {
        double ang = G::real(0, 6.283185307179586);
        for (int inout = -1; inout <= 1; inout += 2) {
          double dist = absDelta * (q == 0 ? factor : 1.0) + inout * (tol + G::real(1.0, 4.0));
          if (dist < 0) continue;
          pts.emplace_back((int64_t)llround(a.x + std::cos(ang) * dist), (int64_t)llround(a.y + std::sin(ang) * dist));
        }
      }
    }
  }
  return pts;
}

// KF-ENG-a recogniser.  evalAt(delta') re-runs the offset with a perturbed delta and judges THE SAME sample against the
// expectation re-derived for delta': -1 not judged (in the band), 0 agrees, 1 mismatch.  A defect of the offsetter
// (wrong sign, factor, normal, cap, state carried over) is systematic in delta; the clean-up union's lost-hole /
// filled-pocket artefact needs two outline parts within a unit or two of touching and is isolated in delta.
// The artefact was measured to persist over a window of delta about 2 units wide (from the moment a cap starts to
// overlap another stroke until the overlap is a couple of units deep).
// Isolated = at least 3 of the 10 perturbed runs are judged, at most half of those still mismatch, and the judged
// runs at the largest perturbations (+-3.7, +-6.1) do not mismatch.
inline bool isolatedInDelta(double absDelta, double minDelta, const std::function<int(double)>& evalAt) {
  int judged = 0, bad = 0;
  bool farBad = false;
  // the largest perturbations first: a systematic defect is recognised after one or two evaluations
  for (double pd : {6.1, -6.1, 3.7, -3.7, 1.9, -1.9, 0.73, -0.73, 0.37, -0.37}) {
    double d2 = absDelta + pd;
    if (d2 < minDelta) continue;
    int r = evalAt(d2);
    if (r < 0) continue;
    ++judged;
    if (r > 0) { ++bad; if (std::fabs(pd) > 3) farBad = true; }
    if (farBad || bad > 5) return false;
  }
  return judged >= 3 && bad * 2 <= judged && !farBad;
}

}  // namespace OFS
