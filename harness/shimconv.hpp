// conversions between the plain library's types and the neutral shim types
#pragma once
#include "common.hpp"
#include "shim.hpp"

inline shim::Paths toShim(const Paths64& pp, int64_t z = 0) {
  shim::Paths r;
  r.reserve(pp.size());
  for (auto& p : pp) { shim::Path q; q.reserve(p.size()); for (auto& v : p) q.push_back({v.x, v.y, z}); r.push_back(std::move(q)); }
  return r;
}
inline Paths64 fromShim(const shim::Paths& pp) {
  Paths64 r;
  r.reserve(pp.size());
  for (auto& p : pp) { Path64 q; q.reserve(p.size()); for (auto& v : p) q.emplace_back(v.x, v.y); r.push_back(std::move(q)); }
  return r;
}
inline shim::PathsD toShimD(const PathsD& pp, int64_t z = 0) {
  shim::PathsD r;
  for (auto& p : pp) { shim::PathD q; for (auto& v : p) q.push_back({v.x, v.y, z}); r.push_back(std::move(q)); }
  return r;
}
inline PathsD fromShimD(const shim::PathsD& pp) {
  PathsD r;
  for (auto& p : pp) { PathD q; for (auto& v : p) q.emplace_back(v.x, v.y); r.push_back(std::move(q)); }
  return r;
}
