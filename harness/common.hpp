// Shared harness infrastructure: case container + JSON I/O, rapidcheck-backed
// random helpers, statistics, and the driver main().
#pragma once
#include <rapidcheck.h>

#include <algorithm>
#include <chrono>
#include <cinttypes>
#include <cmath>
#include <csignal>
#include <cstdint>
#include <fcntl.h>
#include <functional>
#include <map>
#include <set>
#include <string>
#include <unistd.h>
#include <unordered_set>
#include <vector>

#include "clipper2/clipper.h"
#include "json.hpp"

using namespace Clipper2Lib;
typedef __int128 i128;
typedef long double ld;

// ----------------------------------------------------------------------------
// Case container
// ----------------------------------------------------------------------------
struct Case {
  std::string part;
  std::map<std::string, int64_t> i;
  std::map<std::string, double> d;
  std::map<std::string, std::string> s;
  std::map<std::string, Paths64> p;
  std::map<std::string, PathsD> pd;
  std::vector<Case> seq;

  int64_t I(const std::string& k, int64_t def = 0) const {
    auto it = i.find(k);
    return it == i.end() ? def : it->second;
  }
  double D(const std::string& k, double def = 0) const {
    auto it = d.find(k);
    return it == d.end() ? def : it->second;
  }
  const Paths64& P(const std::string& k) const {
    static const Paths64 empty;
    auto it = p.find(k);
    return it == p.end() ? empty : it->second;
  }
  const PathsD& PD(const std::string& k) const {
    static const PathsD empty;
    auto it = pd.find(k);
    return it == pd.end() ? empty : it->second;
  }
  std::string S(const std::string& k, const std::string& def = "") const {
    auto it = s.find(k);
    return it == s.end() ? def : it->second;
  }
};

inline std::string hexfloat(double v) {
  char b[64];
  snprintf(b, sizeof b, "%a", v);
  return b;
}
inline double unhexfloat(const std::string& s) { return strtod(s.c_str(), nullptr); }

inline js::Value pathsToJson(const Paths64& pp) {
  js::Value a = js::Value::array();
  for (auto& path : pp) {
    js::Value pa = js::Value::array();
    for (auto& pt : path) {
      js::Value q = js::Value::array();
      q.push((long long)pt.x);
      q.push((long long)pt.y);
      pa.push(std::move(q));
    }
    a.push(std::move(pa));
  }
  return a;
}
inline js::Value pathsDToJson(const PathsD& pp) {
  js::Value a = js::Value::array();
  for (auto& path : pp) {
    js::Value pa = js::Value::array();
    for (auto& pt : path) {
      js::Value q = js::Value::array();
      q.push(hexfloat(pt.x));
      q.push(hexfloat(pt.y));
      pa.push(std::move(q));
    }
    a.push(std::move(pa));
  }
  return a;
}
inline Paths64 pathsFromJson(const js::Value& v) {
  Paths64 r;
  for (auto& pa : v.a) {
    Path64 path;
    for (auto& q : pa.a) path.emplace_back((int64_t)q.a.at(0).i, (int64_t)q.a.at(1).i);
    r.push_back(std::move(path));
  }
  return r;
}
inline double numOrHex(const js::Value& v) {
  if (v.kind == js::Value::Str) return unhexfloat(v.s);
  if (v.kind == js::Value::Int) return (double)v.i;
  return v.d;
}
inline PathsD pathsDFromJson(const js::Value& v) {
  PathsD r;
  for (auto& pa : v.a) {
    PathD path;
    for (auto& q : pa.a) path.emplace_back(numOrHex(q.a.at(0)), numOrHex(q.a.at(1)));
    r.push_back(std::move(path));
  }
  return r;
}

inline js::Value caseToJson(const Case& c) {
  js::Value o = js::Value::object();
  o.set("part", c.part);
  js::Value oi = js::Value::object();
  for (auto& kv : c.i) oi.set(kv.first, (long long)kv.second);
  o.set("i", oi);
  if (!c.d.empty()) {
    js::Value od = js::Value::object(), odr = js::Value::object();
    for (auto& kv : c.d) { od.set(kv.first, hexfloat(kv.second)); odr.set(kv.first, kv.second); }
    o.set("d", od);
    o.set("d_readable", odr);
  }
  if (!c.s.empty()) {
    js::Value os = js::Value::object();
    for (auto& kv : c.s) os.set(kv.first, kv.second);
    o.set("s", os);
  }
  if (!c.p.empty()) {
    js::Value op = js::Value::object();
    for (auto& kv : c.p) op.set(kv.first, pathsToJson(kv.second));
    o.set("p", op);
  }
  if (!c.pd.empty()) {
    js::Value op = js::Value::object();
    for (auto& kv : c.pd) op.set(kv.first, pathsDToJson(kv.second));
    o.set("pd", op);
  }
  if (!c.seq.empty()) {
    js::Value a = js::Value::array();
    for (auto& s : c.seq) a.push(caseToJson(s));
    o.set("seq", a);
  }
  return o;
}
inline Case caseFromJson(const js::Value& o) {
  Case c;
  if (o.has("part")) c.part = o.at("part").s;
  if (o.has("i")) for (auto& kv : o.at("i").o) c.i[kv.first] = kv.second.i;
  if (o.has("d")) for (auto& kv : o.at("d").o) c.d[kv.first] = numOrHex(kv.second);
  if (o.has("s")) for (auto& kv : o.at("s").o) c.s[kv.first] = kv.second.s;
  if (o.has("p")) for (auto& kv : o.at("p").o) c.p[kv.first] = pathsFromJson(kv.second);
  if (o.has("pd")) for (auto& kv : o.at("pd").o) c.pd[kv.first] = pathsDFromJson(kv.second);
  if (o.has("seq")) for (auto& s : o.at("seq").a) c.seq.push_back(caseFromJson(s));
  return c;
}
inline uint64_t fnv(const std::string& s) {
  uint64_t h = 1469598103934665603ull;
  for (unsigned char ch : s) { h ^= ch; h *= 1099511628211ull; }
  return h;
}

// ----------------------------------------------------------------------------
// Random helpers: every choice goes through rapidcheck so it is recorded,
// replayed and shrunk.
// ----------------------------------------------------------------------------
namespace G {
constexpr int kNominal = 100;
// inclusive range, shrinks towards lo
inline int64_t range(int64_t lo, int64_t hi) {
  if (lo >= hi) return lo;
  if (hi == INT64_MAX) {
    return *rc::gen::resize(kNominal, rc::gen::inRange<int64_t>(lo - 1, hi)) + 1;
  }
  return *rc::gen::resize(kNominal, rc::gen::inRange<int64_t>(lo, hi + 1));
}
// uniform in [-r, r], shrinks towards 0
inline int64_t sym(int64_t r) {
  if (r <= 0) return 0;
  uint64_t u;
  if (r >= (int64_t(1) << 62)) {
    u = (uint64_t)*rc::gen::resize(kNominal, rc::gen::inRange<uint64_t>(0, (uint64_t)2 * (uint64_t)r)) ;
  } else {
    u = (uint64_t)range(0, 2 * r);
  }
  // zig-zag: 0,-1,1,-2,2,... (so small u == small magnitude)
  int64_t m = (int64_t)((u + 1) / 2);
  if (m > r) m = r;
  return (u & 1) ? -m : m;
}
inline bool coin() { return range(0, 1) == 1; }
inline bool chance(int percent) { return range(0, 99) < percent; }
inline double unit() { return (double)range(0, (int64_t(1) << 53) - 1) / 9007199254740992.0; }
inline double real(double lo, double hi) { return lo + (hi - lo) * unit(); }
inline size_t pick(size_t n) { return n <= 1 ? 0 : (size_t)range(0, (int64_t)n - 1); }
template <class T>
inline const T& oneOf(const std::vector<T>& v) { return v[pick(v.size())]; }
// the current rapidcheck size (0..max_size)
inline int size() {
  return *rc::gen::withSize([](int s) { return rc::gen::just(s); });
}
inline uint64_t bits64() {
  return ((uint64_t)range(0, 0xffffffffll) << 32) | (uint64_t)range(0, 0xffffffffll);
}
}  // namespace G

// ----------------------------------------------------------------------------
// Verdict / stats
// ----------------------------------------------------------------------------
struct Verdict {
  bool ok = true;
  std::string why;
  bool nontrivial = false;
  bool discard = false;
  std::string known;  // known-finding class hit (ok stays true)
  uint64_t evals = 0; // library executions judged by the oracle
  void fail(const std::string& w) { if (ok) { ok = false; why = w; } }
};

struct Stats {
  uint64_t cases = 0, discards = 0, evaluations = 0, nontrivial = 0;
  std::unordered_set<uint64_t> ntHashes;
  std::map<std::string, uint64_t> counters;
  std::map<std::string, uint64_t> known;
  std::vector<std::string> samples;
  bool frozen = false;
  void count(const std::string& k, uint64_t n = 1) { if (!frozen) counters[k] += n; }
};
inline Stats ST;

struct Part {
  std::string name;
  std::function<Case()> gen;                    // random generator (rapidcheck picks)
  std::function<Verdict(const Case&)> judge;    // pure function of the case
  // optional exhaustive scope: calls f for every case of the scope
  std::function<void(const std::function<void(const Case&)>&)> enumerate;
  bool scratch = true;                          // write case to the scratch file before judging
};

struct Harness {
  std::string property;
  std::vector<Part> parts;
};

// scratch file: current case, written before each judge call so a crash leaves a replay
inline int g_scratchFd = -1;
inline void writeScratch(const std::string& s) {
  if (g_scratchFd < 0) return;
  if (ftruncate(g_scratchFd, 0) != 0) return;
  ssize_t r = pwrite(g_scratchFd, s.data(), s.size(), 0);
  (void)r;
}

inline int harnessMain(int argc, char** argv, const Harness& H) {
  std::string mode, partName, outPath, scratchPath, replayPath, failPath;
  uint64_t shardI = 0, shardN = 1;
  for (int k = 1; k < argc; ++k) {
    std::string a = argv[k];
    auto next = [&]() { return std::string(k + 1 < argc ? argv[++k] : ""); };
    if (a == "--run") mode = "run";
    else if (a == "--enumerate") mode = "enum";
    else if (a == "--replay") { mode = "replay"; replayPath = next(); }
    else if (a == "--part") partName = next();
    else if (a == "--out") outPath = next();
    else if (a == "--scratch") scratchPath = next();
    else if (a == "--fail") failPath = next();
    else if (a == "--shard") { std::string s = next(); sscanf(s.c_str(), "%" SCNu64 "/%" SCNu64, &shardI, &shardN); }
    else if (a == "--list") { for (auto& p : H.parts) printf("%s%s\n", p.name.c_str(), p.enumerate ? " enum" : ""); return 0; }
  }
  auto findPart = [&](const std::string& n) -> const Part* {
    for (auto& p : H.parts) if (p.name == n) return &p;
    return nullptr;
  };

  if (mode == "replay") {
    js::Value v = js::parse(js::readFile(replayPath));
    Case c = caseFromJson(v.has("case") ? v.at("case") : v);
    const Part* p = findPart(c.part);
    if (!p) { printf("REPLAY error: unknown part '%s'\n", c.part.c_str()); return 3; }
    Verdict vd = p->judge(c);
    if (vd.discard) { printf("REPLAY discard (outside the property's domain)\n"); return 0; }
    if (!vd.ok) { printf("REPLAY FAIL %s\n", vd.why.c_str()); return 1; }
    if (!vd.known.empty()) { printf("REPLAY KNOWN %s\n", vd.known.c_str()); return 4; }
    printf("REPLAY pass\n");
    return 0;
  }

  const Part* part = findPart(partName);
  if (!part) { fprintf(stderr, "unknown part %s\n", partName.c_str()); return 3; }
  if (!scratchPath.empty() && part->scratch) g_scratchFd = open(scratchPath.c_str(), O_CREAT | O_WRONLY | O_TRUNC, 0644);

  auto t0 = std::chrono::steady_clock::now();
  auto tFail = t0;
  bool failed = false;
  Case failCase;
  std::string failWhy;
  bool exhaustive = false;

  auto account = [&](const Case& c, const Verdict& vd, const std::string& rendered) {
    ST.cases++;
    if (vd.discard) { ST.discards++; return; }
    ST.evaluations += vd.evals ? vd.evals : 1;
    if (!vd.known.empty()) {
      // development aid: VERIF_DUMP_KNOWN=<prefix> keeps the first case of each known-finding class as <prefix>.<class>.json
      if (ST.known[vd.known]++ == 0) if (const char* pfx = getenv("VERIF_DUMP_KNOWN")) {
        std::string path = std::string(pfx) + "." + vd.known + ".json";
        if (FILE* f = fopen(path.c_str(), "w")) { std::string r = rendered.empty() ? js::dump(caseToJson(c)) : rendered; fputs(r.c_str(), f); fclose(f); }
      }
    }
    if (vd.nontrivial) {
      ST.nontrivial++;
      std::string r = rendered.empty() ? js::dump(caseToJson(c)) : rendered;
      ST.ntHashes.insert(fnv(r));
      if (ST.samples.size() < 3) ST.samples.push_back(r);
    }
  };

  // writes the fail file and the statistics; returns the process exit code
  auto finish = [&]() -> int {
    double wall = std::chrono::duration<double>(std::chrono::steady_clock::now() - t0).count();
    if (failed && !failPath.empty()) {
      js::Value f = js::Value::object();
      f.set("property", H.property);
      f.set("why", failWhy);
      f.set("case", caseToJson(failCase));
      js::writeFile(failPath, js::dump(f));
    }
    if (!outPath.empty()) {
      js::Value o = js::Value::object();
      o.set("property", H.property);
      o.set("part", part->name);
      o.set("mode", mode);
      o.set("cases", ST.cases);
      o.set("discards", ST.discards);
      o.set("evaluations", ST.evaluations);
      o.set("nontrivial", ST.nontrivial);
      o.set("exhaustive", exhaustive);
      o.set("failed", failed);
      o.set("why", failWhy);
      o.set("wall_s", wall);
      js::Value cs = js::Value::object();
      for (auto& kv : ST.counters) cs.set(kv.first, kv.second);
      o.set("counters", cs);
      js::Value kn = js::Value::object();
      for (auto& kv : ST.known) kn.set(kv.first, kv.second);
      o.set("known", kn);
      js::Value sm = js::Value::array();
      for (auto& s : ST.samples) sm.push(js::parse(s));
      o.set("samples", sm);
      js::Value hs = js::Value::array();
      for (auto h : ST.ntHashes) { char b[20]; snprintf(b, sizeof b, "%016" PRIx64, h); hs.push(std::string(b)); }
      o.set("nt_hashes", hs);
      js::writeFile(outPath, js::dump(o));
    }
    return failed ? 1 : 0;
  };

  if (mode == "run") {
    bool ok = rc::check(H.property + "/" + part->name, [&]() {
      // bound the shrink phase: 20 s after the first failure the best failing case found so far is written out and the
      // worker ends (rapidcheck offers no way to stop shrinking, and generating every further candidate can take minutes)
      if (failed && std::chrono::duration<double>(std::chrono::steady_clock::now() - tFail).count() > 20.0) { int rc = finish(); fflush(nullptr); _exit(rc); }
      Case c = part->gen();
      c.part = part->name;
      std::string rendered;
      if (g_scratchFd >= 0) { rendered = js::dump(caseToJson(c)); writeScratch(rendered); }
      Verdict vd = part->judge(c);
      if (!failed) account(c, vd, rendered);
      if (!vd.ok) {
        if (!failed) tFail = std::chrono::steady_clock::now();
        failed = true;
        ST.frozen = true;
        failCase = c;
        failWhy = vd.why;
        RC_FAIL(vd.why);
      }
    });
    if (!ok && !failed) { fprintf(stderr, "rapidcheck reported failure without a failing case\n"); return 3; }
  } else if (mode == "enum") {
    if (!part->enumerate) { fprintf(stderr, "part has no exhaustive scope\n"); return 3; }
    uint64_t idx = 0;
    part->enumerate([&](const Case& c0) {
      if (failed) return;
      if ((idx++ % shardN) != shardI) return;
      Case c = c0;
      c.part = part->name;
      Verdict vd = part->judge(c);
      account(c, vd, "");
      if (!vd.ok) { failed = true; ST.frozen = true; failCase = c; failWhy = vd.why; }
    });
    exhaustive = !failed;
  } else {
    fprintf(stderr, "usage: --run|--enumerate|--replay FILE ...\n");
    return 3;
  }

  return finish();
}
