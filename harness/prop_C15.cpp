// C15 — USINGZ builds compute the same geometry and account for every Z.
// The plain library is linked directly; the USINGZ build of the same sources lives in the same binary under the
// namespace C2Z and is reached through the neutral shim API.
#include "offset_oracle.hpp"
#include "shimconv.hpp"

namespace {

shim::Paths withZ(const Paths64& pp, const Paths64& zz) {
  shim::Paths r = toShim(pp);
  for (size_t i = 0; i < r.size() && i < zz.size(); ++i) for (size_t k = 0; k < r[i].size() && k < zz[i].size(); ++k) r[i][k].z = zz[i][k].x;
  return r;
}
bool sameXY(const shim::Paths& a, const Paths64& b) {
  if (a.size() != b.size()) return false;
  for (size_t i = 0; i < a.size(); ++i) {
    if (a[i].size() != b[i].size()) return false;
    for (size_t k = 0; k < a[i].size(); ++k) if (a[i][k].x != b[i][k].x || a[i][k].y != b[i][k].y) return false;
  }
  return true;
}
void flatTree(const PolyPath64& n, Paths64& out, std::vector<int>& lv) { for (size_t k = 0; k < n.Count(); ++k) { out.push_back(n[k]->Polygon()); lv.push_back((int)n[k]->Level()); flatTree(*n[k], out, lv); } }
void flatShim(const shim::TreeNode& n, int level, shim::Paths& out, std::vector<int>& lv) { for (auto& k : n.kids) { out.push_back(k.poly); lv.push_back(level + 1); flatShim(k, level + 1, out, lv); } }

Paths64 zLabels(const Paths64& pp) {
  Paths64 zz;
  for (auto& p : pp) { Path64 z; for (size_t k = 0; k < p.size(); ++k) z.emplace_back(G::range(1, 999), (int64_t)0); zz.push_back(z); }
  return zz;
}

// ---- boolean clipping ---------------------------------------------------------
Verdict judgeBool(const Case& c, bool gp) {
  Verdict v;
  const Paths64 &subj = c.P("subj"), &clip = c.P("clip"), &open = c.P("open");
  Paths64 all = subj;
  all.insert(all.end(), clip.begin(), clip.end());
  Paths64 allO = all;
  allO.insert(allO.end(), open.begin(), open.end());
  int64_t m = O::maxAbs(allO);
  if (m > (int64_t(1) << 59)) { v.discard = true; return v; }
  if (gp) {
    for (auto& p : all) if (p.size() < 3) { v.discard = true; return v; }
    for (auto& p : open) if (p.size() < 2) { v.discard = true; return v; }
    std::vector<O::Seg> osegs = O::segsOf(open, false, (int)all.size());
    if (all.empty() || !O::generalPosition(O::segsOf(all), 3.0L + (ld)m * ldexpl(1.0L, -40), nullptr, &osegs)) { v.discard = true; return v; }
  }
  shim::BoolArgs a;
  a.subj = withZ(subj, c.P("subj_z")); a.clip = withZ(clip, c.P("clip_z")); a.open = withZ(open, c.P("open_z"));
  a.ct = 1 + (int)(c.I("ct") & 3); a.fr = (int)(c.I("fr") & 3);
  a.preserveCollinear = c.I("pc") != 0; a.reverse = c.I("rev") != 0; a.useTree = c.I("tree") != 0;
  a.zcb = (int)(c.I("zcb") & 3); a.zconst = c.I("zconst"); a.defaultZ = c.I("defz");
  shim::BoolResult rz = shim_z::boolop(a);
  // plain library
  Clipper64 cl;
  cl.PreserveCollinear(a.preserveCollinear); cl.ReverseSolution(a.reverse);
  if (!subj.empty()) cl.AddSubject(subj); if (!open.empty()) cl.AddOpenSubject(open); if (!clip.empty()) cl.AddClip(clip);
  Paths64 pc, po;
  bool ok;
  std::vector<int> lvP, lvZ;
  if (a.useTree) { PolyTree64 t; ok = cl.Execute((ClipType)a.ct, (FillRule)a.fr, t, po); flatTree(t, pc, lvP); shim::Paths tmp; flatShim(rz.tree, 0, tmp, lvZ); rz.closed = tmp; }
  else ok = cl.Execute((ClipType)a.ct, (FillRule)a.fr, pc, po);
  v.evals = 2;
  std::string cfg = std::string(" [") + O::ctName((ClipType)a.ct) + "," + O::frName((FillRule)a.fr) + ",pc=" + std::to_string(a.preserveCollinear) + ",rev=" + std::to_string(a.reverse) + (a.useTree ? ",tree" : ",paths") + ",zcallback=" + std::to_string(a.zcb) + "]";
  if (ok != rz.ok) { v.fail("Execute success differs between the plain and the USINGZ build" + cfg); return v; }
  if (!sameXY(rz.closed, pc) || lvP != lvZ) { v.fail("closed solution x,y differs between the plain and the USINGZ build" + cfg); return v; }
  if (!sameXY(rz.open, po)) { v.fail("open solution x,y differs between the plain and the USINGZ build" + cfg); return v; }
  if (!gp) { v.nontrivial = !pc.empty() || !po.empty(); return v; }
  // ---- Z accounting (general-position inputs) ----
  std::map<std::pair<int64_t, int64_t>, std::set<int64_t>> inputZ;
  for (auto* sp : {&a.subj, &a.clip, &a.open}) for (auto& p : *sp) for (auto& q : p) inputZ[{q.x, q.y}].insert(q.z);
  // the callback can fire several times at one location (one output vertex per adjoining polygon)
  std::map<std::pair<int64_t, int64_t>, std::set<int64_t>> logged;
  for (auto& l : rz.zlog) logged[{l.x, l.y}].insert(l.z);
  bool newVertex = false;
  for (auto* sp : {&rz.closed, &rz.open})
    for (auto& p : *sp)
      for (auto& q : p) {
        auto it = inputZ.find({q.x, q.y});
        auto lg = logged.find({q.x, q.y});
        if (it == inputZ.end()) newVertex = true;
        if (a.zcb) {
          bool fromInput = it != inputZ.end() && it->second.count(q.z);
          bool fromCallback = lg != logged.end() && lg->second.count(q.z);
          if (!fromInput && !fromCallback) {
            v.fail("solution vertex " + O::ptStr(Point64(q.x, q.y)) + " carries z=" + std::to_string(q.z) + ", which is neither an input Z at that location nor what the callback assigned there" + cfg);
            return v;
          }
        } else {
          if (it == inputZ.end()) {
            if (q.z != a.defaultZ && q.z == 0) { v.known = "KF-C15-a"; ST.count("new_vertex_z0_instead_of_DefaultZ"); }
            else if (q.z != a.defaultZ) { v.fail("new vertex " + O::ptStr(Point64(q.x, q.y)) + " carries z=" + std::to_string(q.z) + " without a callback (default Z " + std::to_string(a.defaultZ) + ")" + cfg); return v; }
          } else if (!it->second.count(q.z) && q.z != a.defaultZ && q.z != 0) {
            v.fail("solution vertex " + O::ptStr(Point64(q.x, q.y)) + " at an input location carries a foreign z=" + std::to_string(q.z) + cfg);
            return v;
          }
        }
      }
  v.nontrivial = newVertex;
  if (a.zcb) ST.count("with_callback"); else ST.count("without_callback");
  return v;
}
Verdict judgeBoolGp(const Case& c) { return judgeBool(c, true); }
Verdict judgeBoolDeg(const Case& c) { return judgeBool(c, false); }

void commonOpts(Case& c) {
  c.i["ct"] = G::range(0, 3); c.i["fr"] = G::range(0, 3); c.i["pc"] = G::range(0, 1); c.i["rev"] = G::range(0, 1); c.i["tree"] = G::range(0, 1);
  c.i["zcb"] = G::range(0, 3); c.i["zconst"] = G::range(-5, 5000); c.i["defz"] = G::chance(50) ? 0 : G::range(1, 77);
}
Case genBoolGp() {
  Case c;
  GEN::GpCase g = GEN::gpCase(59);
  c.p["subj"] = g.subj; c.p["clip"] = g.clip;
  if (G::chance(35)) { int64_t R = std::max<int64_t>(O::maxAbs(g.subj), 1000); Paths64 op; op.push_back(GEN::randomPath(2, 6, R)); c.p["open"] = op; }
  c.p["subj_z"] = zLabels(c.p["subj"]); c.p["clip_z"] = zLabels(c.p["clip"]); c.p["open_z"] = zLabels(c.P("open"));
  commonOpts(c);
  return c;
}
// tight general position: small coordinates, self-crossing polygons with many crossings whose features are only just 3
// units apart - where rounding makes the engine repair self-intersections of its own output (FixSelfIntersects/DoSplitOp)
Case genBoolTight() {
  Case c;
  int64_t R = G::oneOf(std::vector<int64_t>{60, 120, 250, 500, 1000});
  Paths64 s, cl;
  int ns = (int)G::range(1, 2);
  for (int k = 0; k < ns; ++k) s.push_back(GEN::randomPath(5, 8, R));
  if (G::coin()) cl.push_back(GEN::randomPath(3, 7, R));
  c.p["subj"] = s; c.p["clip"] = cl;
  c.p["subj_z"] = zLabels(c.p["subj"]); c.p["clip_z"] = zLabels(c.p["clip"]); c.p["open_z"] = zLabels(c.P("open"));
  commonOpts(c);
  if (G::chance(70)) c.i["zcb"] = G::range(1, 3);
  return c;
}
Case genBoolDeg() {
  Case c;
  GEN::DegPool pool;
  int64_t M = GEN::magOfClass((int)G::range(0, 4));
  if (G::coin()) { GEN::Lattice L = GEN::lattice(); c.p["subj"] = GEN::rectPaths(L, 1, 3); c.p["clip"] = GEN::rectPaths(L, 0, 2); }
  else { c.p["subj"] = GEN::degPaths(3, 10, M, pool); c.p["clip"] = GEN::degPaths(3, 10, M, pool); if (G::chance(30)) c.p["open"] = GEN::degPaths(2, 6, M, pool); }
  c.p["subj_z"] = zLabels(c.p["subj"]); c.p["clip_z"] = zLabels(c.p["clip"]); c.p["open_z"] = zLabels(c.P("open"));
  commonOpts(c);
  return c;
}


// ---- ClipperD (double coordinates, ZCallbackD) ------------------------------------
Verdict judgeBoolD(const Case& c) {
  Verdict v;
  const Paths64 &subj = c.P("subj"), &clip = c.P("clip"), &open = c.P("open");
  Paths64 all = subj;
  all.insert(all.end(), clip.begin(), clip.end());
  Paths64 allO = all;
  allO.insert(allO.end(), open.begin(), open.end());
  int64_t m = O::maxAbs(allO);
  if (m > (int64_t(1) << 40) || all.empty()) { v.discard = true; return v; }
  for (auto& p : all) if (p.size() < 3) { v.discard = true; return v; }
  for (auto& p : open) if (p.size() < 2) { v.discard = true; return v; }
  std::vector<O::Seg> osegs = O::segsOf(open, false, (int)all.size());
  if (!O::generalPosition(O::segsOf(all), 3.0L + (ld)m * ldexpl(1.0L, -40), nullptr, &osegs)) { v.discard = true; return v; }
  auto toD = [](const Paths64& pp, const Paths64& zz) {
    shim::PathsD r;
    for (size_t i = 0; i < pp.size(); ++i) { shim::PathD q; for (size_t k = 0; k < pp[i].size(); ++k) q.push_back({(double)pp[i][k].x, (double)pp[i][k].y, i < zz.size() && k < zz[i].size() ? zz[i][k].x : 0}); r.push_back(q); }
    return r;
  };
  shim::BoolArgsD a;
  a.subj = toD(subj, c.P("subj_z")); a.clip = toD(clip, c.P("clip_z")); a.open = toD(open, c.P("open_z"));
  a.ct = 1 + (int)(c.I("ct") & 3); a.fr = (int)(c.I("fr") & 3); a.precision = (int)c.I("prec", 2);
  a.preserveCollinear = c.I("pc") != 0; a.reverse = c.I("rev") != 0; a.useTree = c.I("tree") != 0;
  a.zcb = (int)(c.I("zcb") % 3); a.zconst = c.I("zconst");
  shim::BoolResultD rz = shim_z::boolopD(a);
  ClipperD cl(a.precision);
  cl.PreserveCollinear(a.preserveCollinear); cl.ReverseSolution(a.reverse);
  cl.AddSubject(TransformPaths<double, int64_t>(subj)); if (!open.empty()) cl.AddOpenSubject(TransformPaths<double, int64_t>(open)); if (!clip.empty()) cl.AddClip(TransformPaths<double, int64_t>(clip));
  PathsD pc, po;
  bool ok;
  if (a.useTree) { PolyTreeD t; ok = cl.Execute((ClipType)a.ct, (FillRule)a.fr, t, po); pc = PolyTreeToPathsD(t); }
  else ok = cl.Execute((ClipType)a.ct, (FillRule)a.fr, pc, po);
  v.evals = 2;
  std::string cfg = std::string(" [ClipperD,precision=") + std::to_string(a.precision) + "," + O::ctName((ClipType)a.ct) + "," + O::frName((FillRule)a.fr) + (a.useTree ? ",tree" : ",paths") + ",zcallback=" + std::to_string(a.zcb) + "]";
  if (ok != rz.ok || rz.threw) { v.fail("ClipperD Execute success differs between the plain and the USINGZ build" + cfg); return v; }
  auto sameXYD = [](const shim::PathsD& x, const PathsD& y) {
    if (x.size() != y.size()) return false;
    for (size_t i = 0; i < x.size(); ++i) { if (x[i].size() != y[i].size()) return false; for (size_t k = 0; k < x[i].size(); ++k) if (x[i][k].x != y[i][k].x || x[i][k].y != y[i][k].y) return false; }
    return true;
  };
  if (!sameXYD(rz.closed, pc)) { v.fail("closed solution x,y differs between the plain and the USINGZ build" + cfg); return v; }
  if (!sameXYD(rz.open, po)) { v.fail("open solution x,y differs between the plain and the USINGZ build" + cfg); return v; }
  // Z accounting: a vertex either sits on an input vertex and carries an input Z given there, or carries a Z the callback assigned
  std::map<std::pair<double, double>, std::set<int64_t>> inputZ;
  for (auto* sp : {&a.subj, &a.clip, &a.open}) for (auto& p : *sp) for (auto& q : p) inputZ[{q.x, q.y}].insert(q.z);
  std::set<int64_t> assigned;
  for (auto& l : rz.zlog) assigned.insert(l.z);
  bool newVertex = false;
  for (auto* sp : {&rz.closed, &rz.open})
    for (auto& p : *sp)
      for (auto& q : p) {
        auto it = inputZ.find({q.x, q.y});
        if (it == inputZ.end()) newVertex = true;
        bool fromInput = it != inputZ.end() && it->second.count(q.z);
        if (a.zcb) {
          if (!fromInput && !assigned.count(q.z)) { v.fail("solution vertex (" + std::to_string(q.x) + "," + std::to_string(q.y) + ") carries z=" + std::to_string(q.z) + ", which is neither an input Z at that location nor a value the callback assigned" + cfg); return v; }
        } else if (it != inputZ.end() && !fromInput && q.z != 0) {
          v.fail("solution vertex at an input location carries a foreign z=" + std::to_string(q.z) + cfg); return v;
        } else if (it == inputZ.end() && q.z != 0) {
          v.fail("new vertex carries z=" + std::to_string(q.z) + " without a callback" + cfg); return v;
        }
      }
  v.nontrivial = newVertex;
  ST.count("clipperD_precision_" + std::to_string(a.precision));
  return v;
}
Case genBoolD() {
  Case c = genBoolGp();
  c.i["prec"] = G::oneOf(std::vector<int64_t>{0, 1, 2, 2, 3, 4});
  return c;
}

// ---- offsetting and rectangle clipping: geometry only ---------------------------
Verdict judgeOffset(const Case& c) {
  Verdict v;
  const Paths64& paths = c.P("paths");
  if (paths.empty() || O::maxAbs(paths) > (int64_t(1) << 40)) { v.discard = true; return v; }
  shim::OffsetArgs a;
  shim::OffsetGroup g;
  g.paths = withZ(paths, c.P("paths_z")); g.jt = (int)(c.I("jt") & 3); g.et = (int)(c.I("et") % 5);
  a.groups.push_back(g);
  a.delta = c.D("delta"); a.miterLimit = c.D("ml", 2.0); a.arcTol = c.D("at", 0.0);
  a.preserveCollinear = c.I("pc") != 0; a.reverse = c.I("rev") != 0; a.useTree = c.I("tree") != 0;
  a.zcb = (int)(c.I("zcb") & 3); a.zconst = c.I("zconst");
  shim::OffsetResult rz = shim_z::offset(a);
  ClipperOffset co(a.miterLimit, a.arcTol, a.preserveCollinear, a.reverse);
  co.AddPaths(paths, (JoinType)g.jt, (EndType)g.et);
  Paths64 sol;
  if (a.useTree) { PolyTree64 t; co.Execute(a.delta, t); sol = PolyTreeToPaths64(t); } else co.Execute(a.delta, sol);
  v.evals = 2;
  if (!sameXY(rz.closed, sol)) { v.fail(std::string("offset x,y differs between the plain and the USINGZ build [") + OFS::jtName((JoinType)g.jt) + "," + OFS::etName((EndType)g.et) + ",delta=" + std::to_string(a.delta) + "]"); return v; }
  // every result vertex carries the z of SOME input vertex of its group or what the callback assigned / 0
  v.nontrivial = !sol.empty();
  return v;
}
Case genOffset() {
  Case c;
  double R = G::oneOf(std::vector<double>{100, 1000, 100000});
  Paths64 paths;
  int n = (int)G::range(1, 3);
  for (int k = 0; k < n; ++k) {
    int kind = (int)G::range(0, 4);
    if (kind == 0) paths.push_back(GEN::ring((int)G::range(3, 9), G::sym((int64_t)R), G::sym((int64_t)R), 0.3 * R, R, G::coin()));
    else if (kind == 1) paths.push_back(GEN::randomPath(1, 2, (int64_t)R));
    else paths.push_back(GEN::randomPath(3, 8, (int64_t)R));
  }
  c.p["paths"] = paths; c.p["paths_z"] = zLabels(paths);
  c.i["jt"] = G::range(0, 3); c.i["et"] = G::range(0, 4); c.i["pc"] = G::range(0, 1); c.i["rev"] = G::range(0, 1); c.i["tree"] = G::range(0, 1);
  c.i["zcb"] = G::range(0, 3); c.i["zconst"] = G::range(0, 99);
  c.d["delta"] = G::chance(10) ? G::real(-0.6, 0.6) : G::real(-0.4 * R, 0.4 * R);
  c.d["ml"] = G::real(0.5, 4.0); c.d["at"] = G::coin() ? 0.0 : G::real(0.05, 3.0);
  return c;
}
Verdict judgeRect(const Case& c) {
  Verdict v;
  const Paths64& paths = c.P("paths");
  int64_t l = c.I("l"), t = c.I("t"), r = c.I("r"), b = c.I("b");
  if (r <= l || b <= t || O::maxAbs(paths) > (int64_t(1) << 40)) { v.discard = true; return v; }
  for (int lines = 0; lines < 2; ++lines) {
    shim::RectArgs a{l, t, r, b, withZ(paths, c.P("paths_z")), lines != 0};
    shim::Paths rz = shim_z::rectclip(a);
    Rect64 rect(l, t, r, b);
    Paths64 sol = lines ? RectClipLines(rect, paths) : RectClip(rect, paths);
    v.evals += 2;
    if (!sameXY(rz, sol)) { v.fail(std::string(lines ? "RectClipLines" : "RectClip") + " x,y differs between the plain and the USINGZ build"); return v; }
    if (!sol.empty()) v.nontrivial = true;
  }
  return v;
}
Case genRect() {
  Case c;
  int64_t M = G::oneOf(std::vector<int64_t>{30, 1000, int64_t(1) << 30});
  int64_t x0 = G::sym(M), x1 = G::sym(M), y0 = G::sym(M), y1 = G::sym(M);
  c.i["l"] = std::min(x0, x1); c.i["r"] = std::max(x0, x1); c.i["t"] = std::min(y0, y1); c.i["b"] = std::max(y0, y1);
  Paths64 pp;
  int n = (int)G::range(1, 3);
  for (int k = 0; k < n; ++k) {
    Path64 p = GEN::randomPath(2, 9, M + M / 2);
    for (auto& q : p) { int s = (int)G::range(0, 11); if (s == 0) q.x = c.i["l"]; else if (s == 1) q.x = c.i["r"]; else if (s == 2) q.y = c.i["t"]; else if (s == 3) q.y = c.i["b"]; }
    pp.push_back(p);
  }
  c.p["paths"] = pp; c.p["paths_z"] = zLabels(pp);
  return c;
}

}  // namespace

int main(int argc, char** argv) {
  Harness H;
  H.property = "C15";
  H.parts.push_back({"bool_gp", genBoolGp, judgeBoolGp, nullptr, true});
  H.parts.push_back({"bool_deg", genBoolDeg, judgeBoolDeg, nullptr, true});
  H.parts.push_back({"bool_tight", genBoolTight, judgeBoolGp, nullptr, true});
  H.parts.push_back({"boolD_gp", genBoolD, judgeBoolD, nullptr, true});
  H.parts.push_back({"offset", genOffset, judgeOffset, nullptr, true});
  H.parts.push_back({"rect", genRect, judgeRect, nullptr, true});
  return harnessMain(argc, argv, H);
}
