// C17 — the C export layer marshals faithfully and forwards every parameter.
// Built twice: plain and with -DUSINGZ (the export header may appear in one TU per binary).
#include "gen.hpp"
#include "cexport.hpp"
#include "clipper2/clipper.minkowski.h"

namespace {

#ifdef USINGZ
void setZ(Paths64& pp) { for (auto& p : pp) for (auto& q : p) q.z = G::sym(1000); }
void setZ(PathsD& pp) { for (auto& p : pp) for (auto& q : p) q.z = G::sym(1000); }
template <class P> bool zEq(const P& a, const P& b) { return a.z == b.z; }
#else
void setZ(Paths64&) {}
void setZ(PathsD&) {}
template <class P> bool zEq(const P&, const P&) { return true; }
#endif
template <class T>
bool samePathsZ(const Paths<T>& a, const Paths<T>& b) {
  if (a.size() != b.size()) return false;
  for (size_t i = 0; i < a.size(); ++i) {
    if (a[i].size() != b[i].size()) return false;
    for (size_t k = 0; k < a[i].size(); ++k) if (!(a[i][k].x == b[i][k].x && a[i][k].y == b[i][k].y && zEq(a[i][k], b[i][k]))) return false;
  }
  return true;
}
template <class T>
Paths<T> nonEmpty(const Paths<T>& pp) { Paths<T> r; for (auto& p : pp) if (!p.empty()) r.push_back(p); return r; }
template <class T>
bool sameTreeZ(const cx::FlatNode<T>& a, const cx::FlatNode<T>& b) {
  if (!samePathsZ(Paths<T>{a.poly}, Paths<T>{b.poly}) || a.kids.size() != b.kids.size()) return false;
  for (size_t k = 0; k < a.kids.size(); ++k) if (!sameTreeZ(a.kids[k], b.kids[k])) return false;
  return true;
}

#ifdef USINGZ
// Z callbacks registered with the export layer (plain functions) and the same behaviour for the reference C++ calls
void zcb64(const Point64&, const Point64&, const Point64&, const Point64&, Point64& pt) { pt.z = 700000 + ((pt.x * 31 + pt.y) & 0xffff); }
void zcbD(const PointD&, const PointD&, const PointD&, const PointD&, PointD& pt) { pt.z = 900000 + ((int64_t)std::llround(pt.x * 8 + pt.y * 3) & 0xffff); }
#endif

// paths stored in the case as Paths64 (+ "z" as a parallel Paths64 whose x is the z value) -------------------
Paths64 withZ(const Case& c, const std::string& k) {
  Paths64 pp = c.P(k);
#ifdef USINGZ
  const Paths64& zz = c.P(k + "_z");
  for (size_t i = 0; i < pp.size() && i < zz.size(); ++i) for (size_t j = 0; j < pp[i].size() && j < zz[i].size(); ++j) pp[i][j].z = zz[i][j].x;
#endif
  return pp;
}
PathsD toD(const Paths64& pp, double div) {
  PathsD r;
  for (auto& p : pp) { PathD q; for (auto& v : p) {
#ifdef USINGZ
    q.emplace_back(v.x / div, v.y / div, v.z);
#else
    q.emplace_back(v.x / div, v.y / div);
#endif
  } r.push_back(q); }
  return r;
}

// ---- part roundtrip --------------------------------------------------------------------------
Verdict judgeRound(const Case& c) {
  Verdict v;
  Paths64 pp = withZ(c, "paths");
  double div = c.D("div", 4.0);
  PathsD pd = toD(pp, div);
  // 1. library writer -> harness reader
  {
    int64_t* a = CreateCPathsFromPathsT(pp);
    cx::DecodeInfo di;
    Paths64 back = cx::decodePaths(a, di);
    bool ok = di.ok && samePathsZ(back, nonEmpty(pp)) && di.count == nonEmpty(pp).size();
    delete[] a;
    if (!ok) { v.fail(std::string("CreateCPathsFromPathsT: ") + (di.ok ? "decoded paths differ from the input's non-empty paths" : di.why)); return v; }
  }
  {
    double* a = CreateCPathsDFromPathsD(pd);
    cx::DecodeInfo di;
    PathsD back = cx::decodePaths(a, di);
    bool ok = di.ok && samePathsZ(back, nonEmpty(pd));
    if (a) DisposeArrayD(a);
    if (!ok) { v.fail(std::string("CreateCPathsDFromPathsD: ") + (di.ok ? "decoded paths differ from the input's non-empty paths" : di.why)); return v; }
  }
  {
    double scale = 1.0 / div;
    double* a = CreateCPathsDFromPaths64(pp, scale);
    cx::DecodeInfo di;
    PathsD back = cx::decodePaths(a, di);
    PathsD want;
    for (auto& p : nonEmpty(pp)) { PathD q; for (auto& pt : p) {
#ifdef USINGZ
      q.emplace_back(pt.x * scale, pt.y * scale, pt.z);
#else
      q.emplace_back(pt.x * scale, pt.y * scale);
#endif
    } want.push_back(q); }
    bool ok = di.ok && samePathsZ(back, want);
    if (a) DisposeArrayD(a);
    if (!ok) { v.fail(std::string("CreateCPathsDFromPaths64: ") + (di.ok ? "decoded paths differ" : di.why)); return v; }
  }
  // 2. harness writer (exact-length blocks) -> library reader
  {
    int64_t* a = cx::encodePaths(pp, true);
    Paths64 back = ConvertCPathsToPathsT(a);
    delete[] a;
    if (!samePathsZ(nonEmpty(back), nonEmpty(pp))) { v.fail("ConvertCPathsToPathsT<int64_t> is not the identity on non-empty paths"); return v; }
    double* d = cx::encodePaths(pd, true);
    PathsD backD = ConvertCPathsToPathsT(d);
    Paths64 back64 = ConvertCPathsDToPaths64(d, div);
    delete[] d;
    if (!samePathsZ(nonEmpty(backD), nonEmpty(pd))) { v.fail("ConvertCPathsToPathsT<double> is not the identity on non-empty paths"); return v; }
    if (!samePathsZ(nonEmpty(back64), nonEmpty(pp))) { v.fail("ConvertCPathsDToPaths64 does not restore the integer paths"); return v; }
    if (!pp.empty() && !pp[0].empty()) {
      int64_t* p1 = cx::encodePath(pp[0]);
      Path64 b1 = ConvertCPathToPathT(p1);
      delete[] p1;
      if (!samePathsZ(Paths64{b1}, Paths64{pp[0]})) { v.fail("ConvertCPathToPathT is not the identity"); return v; }
      double* p2 = cx::encodePath(pd[0]);
      Path64 b2 = ConvertCPathDToPath64WithScale(p2, div);
      delete[] p2;
      if (!samePathsZ(Paths64{b2}, Paths64{pp[0]})) { v.fail("ConvertCPathDToPath64WithScale does not restore the integer path"); return v; }
    }
  }
  // 3. trees
  {
    Clipper64 cl;
    cl.AddSubject(pp);
    PolyTree64 t;
    cl.Execute(ClipType::Union, (FillRule)(c.I("fr") & 3), t);
    int64_t* a = CreateCPolyTree64(t);
    cx::DecodeInfo di;
    cx::FlatNode<int64_t> got = cx::decodeTree(a, di), want;
    cx::treeToFlat(t, want);
    bool ok = di.ok && sameTreeZ(got, want);
    if (a) DisposeArray64(a);
    if (!ok) { v.fail(std::string("CreateCPolyTree64: ") + (di.ok ? "decoded tree differs from the PolyTree64" : di.why)); return v; }
    if (!want.kids.empty()) v.nontrivial = true;
    ClipperD cd(2);
    cd.AddSubject(pd);
    PolyTreeD td;
    cd.Execute(ClipType::Union, (FillRule)(c.I("fr") & 3), td);
    double* ad = CreateCPolyTreeD(td);
    cx::DecodeInfo di2;
    cx::FlatNode<double> gotD = cx::decodeTree(ad, di2), wantD;
    cx::treeToFlat(td, wantD);
    ok = di2.ok && sameTreeZ(gotD, wantD);
    if (ad) DisposeArrayD(ad);
    if (!ok) { v.fail(std::string("CreateCPolyTreeD: ") + (di2.ok ? "decoded tree differs from the PolyTreeD" : di2.why)); return v; }
  }
  v.evals = 9;
  bool hasEmpty = false;
  for (auto& p : pp) if (p.empty()) hasEmpty = true;
  if (hasEmpty) ST.count("with_empty_paths");
  if (pp.empty()) ST.count("empty_list");
  if (!nonEmpty(pp).empty()) v.nontrivial = true;
  return v;
}

void genPathsInto(Case& c, const std::string& key, int maxPaths, int maxPts, int64_t M, bool allowEmpty) {
  GEN::DegPool pool;
  Paths64 pp = GEN::degPaths(maxPaths, maxPts, M, pool);
  if (G::chance(1)) { pp = GEN::degPaths(24, 30, M, pool); ST.count("large_path_set"); }
  else if (G::chance(1)) { pp = GEN::degPaths(400, 4, std::max<int64_t>(M, 1000), pool); ST.count("many_small_paths"); }   // path COUNT in the hundreds   // array sizes in the hundreds / thousands of elements
  if (!allowEmpty) { Paths64 r; for (auto& p : pp) if (!p.empty()) r.push_back(p); pp = r; }
  c.p[key] = pp;
  Paths64 zz;
  for (auto& p : pp) { Path64 z; for (size_t k = 0; k < p.size(); ++k) z.emplace_back(G::sym(1000), (int64_t)0); zz.push_back(z); }
  c.p[key + "_z"] = zz;
}
Case genRound() {
  Case c;
  genPathsInto(c, "paths", 5, 9, GEN::magOfClass((int)G::range(0, 2)), true);  // <= 2^20: ClipperD(2) scales by 128, arithmetic is overflow-free up to 2^29
  c.d["div"] = G::oneOf(std::vector<double>{1.0, 4.0, 100.0, 1024.0});
  c.i["fr"] = G::range(0, 3);
  return c;
}

// ---- part forward ----------------------------------------------------------------------------
enum Fn { F_Bool64, F_BoolTree64, F_BoolD, F_BoolTreeD, F_InflatePaths64, F_InflatePathsD, F_InflatePath64, F_InflatePathD, F_Rect64, F_RectD, F_RectLines64, F_RectLinesD, F_MinkSum, F_MinkDiff, F_N };
const char* fnName(int f) { static const char* n[] = {"BooleanOp64", "BooleanOp_PolyTree64", "BooleanOpD", "BooleanOp_PolyTreeD", "InflatePaths64", "InflatePathsD", "InflatePath64", "InflatePathD", "RectClip64", "RectClipD", "RectClipLines64", "RectClipLinesD", "MinkowskiSum64", "MinkowskiDiff64"}; return n[f]; }

Verdict judgeFwd(const Case& c) {
  Verdict v;
  int fn = (int)c.I("fn");
  if (fn < 0 || fn >= F_N) { v.discard = true; return v; }
  Paths64 subj = withZ(c, "subj"), clip = withZ(c, "clip"), open = withZ(c, "open");
  int ct = (int)(c.I("ct") % 5), fr = (int)(c.I("fr") & 3), prec = (int)c.I("precision", 2);
  bool pc = c.I("pc") != 0, rev = c.I("rev") != 0, closed = c.I("closed") != 0;
  int jt = (int)(c.I("jt") & 3), et = (int)(c.I("et") % 5);
  double delta = c.D("delta"), ml = c.D("ml", 2.0), at = c.D("at", 0.0);
  if (prec < -4 || prec > 4) prec = 2;
  double div = std::pow(10.0, prec);
  PathsD sd = toD(subj, div), cdp = toD(clip, div), od = toD(open, div);
  std::string what = std::string(fnName(fn)) + " ct=" + std::to_string(ct) + " fr=" + std::to_string(fr) + " pc=" + std::to_string(pc) + " rev=" + std::to_string(rev) +
                     " jt=" + std::to_string(jt) + " et=" + std::to_string(et) + " precision=" + std::to_string(prec);
  v.evals = 1;
  auto optionSensitive = [&](bool changed, const char* opt) { if (changed) { ST.count(std::string("option_sensitive_") + opt); v.nontrivial = true; } };
#ifdef USINGZ
  // which export-layer Z callbacks are registered for this case: bit 0 the int64 one, bit 1 the double one
  int zmode = (int)c.I("zmode", 0);
  SetZCallback64((zmode & 1) ? zcb64 : nullptr);
  SetZCallbackD((zmode & 2) ? zcbD : nullptr);
  ST.count("export_zcallbacks_mode_" + std::to_string(zmode));
#endif
  if (fn == F_Bool64 || fn == F_BoolTree64) {
    int64_t *s = cx::encodePaths(subj, true), *o = cx::encodePaths(open, true), *cl = cx::encodePaths(clip, true), *sol = nullptr, *solo = nullptr;
    auto ref = [&](bool pc2, bool rev2, Paths64& closedOut, Paths64& openOut, cx::FlatNode<int64_t>& tree) {
      Clipper64 k; k.PreserveCollinear(pc2); k.ReverseSolution(rev2);
#ifdef USINGZ
      if (zmode & 1) k.SetZCallback(zcb64);
#endif
      if (!subj.empty()) k.AddSubject(subj); if (!open.empty()) k.AddOpenSubject(open); if (!clip.empty()) k.AddClip(clip);
      if (fn == F_Bool64) k.Execute((ClipType)ct, (FillRule)fr, closedOut, openOut);
      else { PolyTree64 t; k.Execute((ClipType)ct, (FillRule)fr, t, openOut); cx::treeToFlat(t, tree); }
    };
    int rc = fn == F_Bool64 ? BooleanOp64(ct, fr, s, o, cl, sol, solo, pc, rev) : BooleanOp_PolyTree64(ct, fr, s, o, cl, sol, solo, pc, rev);
    Paths64 wc, wo, wc2, wo2; cx::FlatNode<int64_t> wt, wt2;
    ref(pc, rev, wc, wo, wt);
    cx::DecodeInfo d1, d2;
    bool ok = rc == 0;
    if (ok) {
      if (fn == F_Bool64) { Paths64 g = cx::decodePaths(sol, d1); ok = d1.ok && samePathsZ(g, wc); }
      else { cx::FlatNode<int64_t> g = cx::decodeTree(sol, d1); ok = d1.ok && sameTreeZ(g, wt); }
      Paths64 go = cx::decodePaths(solo, d2);
      ok = ok && d2.ok && samePathsZ(go, wo);
    }
    if (sol) DisposeArray64(sol); if (solo) DisposeArray64(solo);
    delete[] s; delete[] o; delete[] cl;
    if (!ok) { v.fail("result differs from the C++ call with the same arguments: " + what); return v; }
    ref(!pc, rev, wc2, wo2, wt2); optionSensitive(!samePathsZ(wc, wc2) || !sameTreeZ(wt, wt2), "preserve_collinear");
    Paths64 wc3, wo3; cx::FlatNode<int64_t> wt3;
    ref(pc, !rev, wc3, wo3, wt3); optionSensitive(!samePathsZ(wc, wc3) || !sameTreeZ(wt, wt3), "reverse_solution");
  } else if (fn == F_BoolD || fn == F_BoolTreeD) {
    double *s = cx::encodePaths(sd, true), *o = cx::encodePaths(od, true), *cl = cx::encodePaths(cdp, true), *sol = nullptr, *solo = nullptr;
    auto ref = [&](bool pc2, bool rev2, PathsD& closedOut, PathsD& openOut, cx::FlatNode<double>& tree) {
      ClipperD k(prec); k.PreserveCollinear(pc2); k.ReverseSolution(rev2);
#ifdef USINGZ
      if (zmode & 2) k.SetZCallback(zcbD);
#endif
      if (!sd.empty()) k.AddSubject(sd); if (!od.empty()) k.AddOpenSubject(od); if (!cdp.empty()) k.AddClip(cdp);
      if (fn == F_BoolD) k.Execute((ClipType)ct, (FillRule)fr, closedOut, openOut);
      else { PolyTreeD t; k.Execute((ClipType)ct, (FillRule)fr, t, openOut); cx::treeToFlat(t, tree); }
    };
    int rc = fn == F_BoolD ? BooleanOpD(ct, fr, s, o, cl, sol, solo, prec, pc, rev) : BooleanOp_PolyTreeD(ct, fr, s, o, cl, sol, solo, prec, pc, rev);
    PathsD wc, wo; cx::FlatNode<double> wt;
    ref(pc, rev, wc, wo, wt);
    cx::DecodeInfo d1, d2;
    bool ok = rc == 0;
    if (ok) {
      if (fn == F_BoolD) { PathsD g = cx::decodePaths(sol, d1); ok = d1.ok && samePathsZ(g, wc); }
      else { cx::FlatNode<double> g = cx::decodeTree(sol, d1); ok = d1.ok && sameTreeZ(g, wt); }
      PathsD go = cx::decodePaths(solo, d2);
      ok = ok && d2.ok && samePathsZ(go, wo);
    }
    if (sol) DisposeArrayD(sol); if (solo) DisposeArrayD(solo);
    delete[] s; delete[] o; delete[] cl;
    if (!ok) { v.fail("result differs from the C++ call with the same arguments: " + what); return v; }
    PathsD wc2, wo2; cx::FlatNode<double> wt2;
    ref(!pc, rev, wc2, wo2, wt2); optionSensitive(!samePathsZ(wc, wc2) || !sameTreeZ(wt, wt2), "preserve_collinear");
    PathsD wc3, wo3; cx::FlatNode<double> wt3;
    ref(pc, !rev, wc3, wo3, wt3); optionSensitive(!samePathsZ(wc, wc3) || !sameTreeZ(wt, wt3), "reverse_solution");
  } else if (fn >= F_InflatePaths64 && fn <= F_InflatePathD) {
    bool single = fn == F_InflatePath64 || fn == F_InflatePathD, dbl = fn == F_InflatePathsD || fn == F_InflatePathD;
    if (single && (subj.empty() || subj[0].empty())) { v.discard = true; return v; }
    Paths64 in = single ? Paths64{subj[0]} : subj;
    auto ref = [&](bool rev2, double ml2, double at2) {
      ClipperOffset co(ml2, dbl ? at2 * div : at2, false, rev2);
      // the D exports scale the input by 10^precision with rounding; `in` already holds those integers
      if (single) co.AddPath(in[0], (JoinType)jt, (EndType)et); else co.AddPaths(in, (JoinType)jt, (EndType)et);
      Paths64 r;
      co.Execute(dbl ? delta * div : delta, r);
      return r;
    };
    Paths64 want = ref(rev, ml, at);
    bool ok;
    if (!dbl) {
      int64_t* a = single ? cx::encodePath(in[0]) : cx::encodePaths(in, true);
      int64_t* r = single ? InflatePath64(a, delta, jt, et, ml, at, rev) : InflatePaths64(a, delta, jt, et, ml, at, rev);
      cx::DecodeInfo di;
      Paths64 g = cx::decodePaths(r, di);
      ok = di.ok && samePathsZ(g, want);
      if (r) DisposeArray64(r);
      delete[] a;
    } else {
      PathsD ind = toD(in, div);
      // make sure the doubles scale back to exactly the integers the reference uses
      for (size_t i = 0; i < in.size(); ++i) for (size_t k = 0; k < in[i].size(); ++k) if ((int64_t)std::llround(ind[i][k].x * div) != in[i][k].x || (int64_t)std::llround(ind[i][k].y * div) != in[i][k].y) { v.discard = true; return v; }
      double* a = single ? cx::encodePath(ind[0]) : cx::encodePaths(ind, true);
      double* r = single ? InflatePathD(a, delta, jt, et, prec, ml, at, rev) : InflatePathsD(a, delta, jt, et, prec, ml, at, rev);
      cx::DecodeInfo di;
      PathsD g = cx::decodePaths(r, di);
      PathsD wantD;
      double inv = 1 / div;
      for (auto& p : want) { PathD q; for (auto& pt : p) {
#ifdef USINGZ
        q.emplace_back(pt.x * inv, pt.y * inv, pt.z);
#else
        q.emplace_back(pt.x * inv, pt.y * inv);
#endif
      } wantD.push_back(q); }
      ok = di.ok && samePathsZ(g, wantD);
      if (r) DisposeArrayD(r);
      delete[] a;
    }
    if (!ok) {
      char b[160];
      snprintf(b, sizeof b, " delta=%g miter_limit=%g arc_tol=%g", delta, ml, at);
      v.fail("result differs from ClipperOffset with the same arguments: " + what + b);
      return v;
    }
    optionSensitive(!samePathsZ(want, ref(!rev, ml, at)), "reverse_solution");
    optionSensitive(!samePathsZ(want, ref(rev, ml + 1.5, at)), "miter_limit");
    optionSensitive(!samePathsZ(want, ref(rev, ml, at + 0.7)), "arc_tolerance");
  } else if (fn >= F_Rect64 && fn <= F_RectLinesD) {
    bool lines = fn == F_RectLines64 || fn == F_RectLinesD, dbl = fn == F_RectD || fn == F_RectLinesD;
    int64_t l = c.I("l"), t = c.I("t"), r = c.I("r"), b = c.I("b");
    if (r <= l || b <= t) { v.discard = true; return v; }
    Rect64 r64(l, t, r, b);
    // (the class names are hidden by the exported functions of the same name: elaborated type specifiers)
    class RectClip64 rcObj(r64);
    class RectClipLines64 rclObj(r64);
    Paths64 want = lines ? rclObj.Execute(subj) : rcObj.Execute(subj);
    bool ok;
    if (!dbl) {
      CRect64 cr{l, t, r, b};
      int64_t* a = cx::encodePaths(subj, true);
      int64_t* res = lines ? RectClipLines64(cr, a) : RectClip64(cr, a);
      cx::DecodeInfo di;
      Paths64 g = cx::decodePaths(res, di);
      ok = di.ok && samePathsZ(g, want);
      if (res) DisposeArray64(res);
      delete[] a;
    } else {
      CRectD cr{l / div, t / div, r / div, b / div};
      RectD rd(l / div, t / div, r / div, b / div);
      PathsD wantD = lines ? RectClipLines(rd, sd, prec) : RectClip(rd, sd, prec);
      double* a = cx::encodePaths(sd, true);
      double* res = lines ? RectClipLinesD(cr, a, prec) : RectClipD(cr, a, prec);
      cx::DecodeInfo di;
      PathsD g = cx::decodePaths(res, di);
      ok = di.ok && samePathsZ(g, wantD);
      if (res) DisposeArrayD(res);
      delete[] a;
    }
    if (!ok) { v.fail("result differs from the C++ call with the same arguments: " + what); return v; }
    if (!want.empty()) v.nontrivial = true;
  } else {
    if (subj.empty() || clip.empty()) { v.discard = true; return v; }
    Paths64 want = fn == F_MinkSum ? MinkowskiSum(subj[0], clip[0], closed) : MinkowskiDiff(subj[0], clip[0], closed);
    int64_t *pa = cx::encodePath(subj[0]), *pb = cx::encodePath(clip[0]);
    int64_t* res = fn == F_MinkSum ? MinkowskiSum64(pa, pb, closed) : MinkowskiDiff64(pa, pb, closed);
    cx::DecodeInfo di;
    Paths64 g = cx::decodePaths(res, di);
    bool ok = di.ok && samePathsZ(g, want);
    if (res) DisposeArray64(res);
    delete[] pa; delete[] pb;
    if (!ok) { v.fail("result differs from the C++ call with the same arguments: " + what + " closed=" + std::to_string(closed)); return v; }
    if (!want.empty()) v.nontrivial = true;
    Paths64 other = fn == F_MinkSum ? MinkowskiSum(subj[0], clip[0], !closed) : MinkowskiDiff(subj[0], clip[0], !closed);
    optionSensitive(!samePathsZ(want, other), "is_closed");
  }
  ST.count(std::string("fn_") + fnName(fn));
  return v;
}

Case genFwd() {
  Case c;
  int fn = (int)G::range(0, F_N - 1);
  c.i["fn"] = fn;
  int64_t M = G::oneOf(std::vector<int64_t>{20, 200, 5000});
  // inputs on which the options matter: collinear vertices (preserve_collinear), areas (reverse_solution)
  genPathsInto(c, "subj", 3, 8, M, true);
  if (G::chance(60)) {
    Paths64 pp = c.p["subj"];
    const int64_t Z0 = 0;
    Path64 sq = {Point64(Z0, Z0), Point64(M / 2, Z0), Point64(M, Z0), Point64(M, M), Point64(M / 2, M), Point64(Z0, M)};
    if (G::coin()) std::reverse(sq.begin(), sq.end());
    pp.insert(pp.begin(), sq);
    c.p["subj"] = pp;
    Paths64 zz;
    for (auto& p : pp) { Path64 z; for (size_t k = 0; k < p.size(); ++k) z.emplace_back(G::sym(1000), (int64_t)0); zz.push_back(z); }
    c.p["subj_z"] = zz;
  }
  genPathsInto(c, "clip", 2, 8, M, true);
  if (G::chance(30)) genPathsInto(c, "open", 2, 5, M, true);
  c.i["ct"] = G::range(0, 4); c.i["fr"] = G::range(0, 3); c.i["pc"] = G::range(0, 1); c.i["rev"] = G::range(0, 1);
  c.i["jt"] = G::range(0, 3); c.i["et"] = G::range(0, 4); c.i["closed"] = G::range(0, 1);
  c.i["precision"] = G::range(-2, 3);
  c.i["zmode"] = G::range(0, 3);
  double dd = std::pow(10.0, (double)c.i["precision"]);
  bool dbl = fn == F_InflatePathsD || fn == F_InflatePathD;
  double unit = dbl ? 1.0 / dd : 1.0;
  c.d["delta"] = G::real(-0.2, 0.3) * M * unit;
  c.d["ml"] = G::real(1.0, 4.0);
  c.d["at"] = G::coin() ? 0.0 : G::real(0.3, 3.0) * unit;
  int64_t a = G::sym(M), b = G::sym(M), cc = G::sym(M), d = G::sym(M);
  c.i["l"] = std::min(a, b); c.i["r"] = std::max(a, b); c.i["t"] = std::min(cc, d); c.i["b"] = std::max(cc, d);
  return c;
}

}  // namespace

int main(int argc, char** argv) {
  Harness H;
#ifdef USINGZ
  H.property = "C17";
#else
  H.property = "C17";
#endif
  H.parts.push_back({"roundtrip", genRound, judgeRound, nullptr, true});
  H.parts.push_back({"forward", genFwd, judgeFwd, nullptr, true});
  return harnessMain(argc, argv, H);
}
