// C10 — no input can crash, hang or corrupt memory (rapidcheck part):
//   part "deg":       degenerate structured inputs through every operation family under ASan+UBSan
//   part "allocfail": allocation-failure enumeration: the k-th allocation inside the operation throws
//                     std::bad_alloc, for every k; the exception must reach the caller and all objects
//                     must be destructible (ASan watches).
#include <new>

#include "gen.hpp"
#include "clipper2/clipper.minkowski.h"

// ---------------------------------------------------------------------------
// allocation-failure injector: replaces the global operator new family
// ---------------------------------------------------------------------------
namespace inj {
static thread_local bool active = false;
static thread_local uint64_t count = 0, failAt = 0;
static thread_local bool failedNothrow = false;
inline void* alloc(std::size_t n, bool nothrow) {
  if (active) {
    ++count;
    if (count == failAt) {
      if (nothrow) { failedNothrow = true; return nullptr; }
      throw std::bad_alloc();
    }
  }
  void* p = std::malloc(n ? n : 1);
  if (!p && !nothrow) throw std::bad_alloc();
  return p;
}
inline void* allocAligned(std::size_t n, std::size_t al, bool nothrow) {
  if (active) {
    ++count;
    if (count == failAt) {
      if (nothrow) { failedNothrow = true; return nullptr; }
      throw std::bad_alloc();
    }
  }
  void* p = nullptr;
  if (posix_memalign(&p, al < sizeof(void*) ? sizeof(void*) : al, n ? n : 1) != 0) p = nullptr;
  if (!p && !nothrow) throw std::bad_alloc();
  return p;
}
}  // namespace inj
void* operator new(std::size_t n) { return inj::alloc(n, false); }
void* operator new[](std::size_t n) { return inj::alloc(n, false); }
void* operator new(std::size_t n, const std::nothrow_t&) noexcept { return inj::alloc(n, true); }
void* operator new[](std::size_t n, const std::nothrow_t&) noexcept { return inj::alloc(n, true); }
void* operator new(std::size_t n, std::align_val_t a) { return inj::allocAligned(n, (std::size_t)a, false); }
void* operator new[](std::size_t n, std::align_val_t a) { return inj::allocAligned(n, (std::size_t)a, false); }
void* operator new(std::size_t n, std::align_val_t a, const std::nothrow_t&) noexcept { return inj::allocAligned(n, (std::size_t)a, true); }
void* operator new[](std::size_t n, std::align_val_t a, const std::nothrow_t&) noexcept { return inj::allocAligned(n, (std::size_t)a, true); }
void operator delete(void* p) noexcept { std::free(p); }
void operator delete[](void* p) noexcept { std::free(p); }
void operator delete(void* p, std::size_t) noexcept { std::free(p); }
void operator delete[](void* p, std::size_t) noexcept { std::free(p); }
void operator delete(void* p, const std::nothrow_t&) noexcept { std::free(p); }
void operator delete[](void* p, const std::nothrow_t&) noexcept { std::free(p); }
void operator delete(void* p, std::align_val_t) noexcept { std::free(p); }
void operator delete[](void* p, std::align_val_t) noexcept { std::free(p); }
void operator delete(void* p, std::size_t, std::align_val_t) noexcept { std::free(p); }
void operator delete[](void* p, std::size_t, std::align_val_t) noexcept { std::free(p); }

namespace {

enum Op { BoolPaths, BoolTree, BoolD, OffsetPaths, OffsetTree, RectPoly, RectLines, MinkSum, MinkDiff, Utils, InflateFree, UnionFree, NOPS };
const char* opName(int op) {
  static const char* n[] = {"BoolPaths", "BoolTree", "BoolD", "OffsetPaths", "OffsetTree", "RectClip", "RectClipLines", "MinkowskiSum", "MinkowskiDiff", "Utilities", "InflatePaths", "Union"};
  return n[op];
}

struct Outcome { bool structuralOk = true; std::string why; size_t outSize = 0; };

void checkClosed(const Paths64& sol, Outcome& o) {
  for (auto& p : sol) {
    if (p.size() < 3) { o.structuralOk = false; o.why = "closed path with fewer than 3 vertices"; }
    for (size_t k = 0; k < p.size(); ++k) if (p[k] == p[(k + 1) % p.size()]) { o.structuralOk = false; o.why = "equal consecutive vertices"; }
  }
}

// one public operation; every library object lives inside this function so that
// stack unwinding after an injected bad_alloc destroys all of them
Outcome runOp(const Case& c) {
  Outcome o;
  int op = (int)c.I("op");
  const Paths64& a = c.P("a");
  const Paths64& b = c.P("b");
  const Paths64& open = c.P("open");
  ClipType ct = (ClipType)c.I("ct", 1);
  FillRule fr = (FillRule)c.I("fr", 0);
  JoinType jt = (JoinType)c.I("jt", 0);
  EndType et = (EndType)c.I("et", 0);
  double delta = c.D("delta", 1.0);
  switch (op) {
    case BoolPaths: case BoolTree: {
      Clipper64 cl;
      cl.PreserveCollinear(c.I("pc") != 0);
      cl.ReverseSolution(c.I("rev") != 0);
      cl.AddSubject(a); cl.AddClip(b);
      if (!open.empty()) cl.AddOpenSubject(open);
      Paths64 sol, so;
      bool ok;
      if (op == BoolTree) { PolyTree64 t; ok = cl.Execute(ct, fr, t, so); sol = PolyTreeToPaths64(t); }
      else ok = cl.Execute(ct, fr, sol, so);
      if (!ok) { o.structuralOk = false; o.why = "Execute returned false"; }
      checkClosed(sol, o);
      o.outSize = sol.size() + so.size();
      break;
    }
    case BoolD: {
      ClipperD cl(2);
      int ec = 0;
      PathsD ad = ScalePaths<double, int64_t>(a, 0.01, ec), bd = ScalePaths<double, int64_t>(b, 0.01, ec);
      cl.AddSubject(ad); cl.AddClip(bd);
      PathsD sol, so;
      PolyTreeD t;
      if (c.I("tree")) { cl.Execute(ct, fr, t, so); sol = PolyTreeToPathsD(t); } else cl.Execute(ct, fr, sol, so);
      o.outSize = sol.size();
      break;
    }
    case OffsetPaths: case OffsetTree: {
      ClipperOffset co(c.D("ml", 2.0), c.D("at", 0.0), c.I("pc") != 0, c.I("rev") != 0);
      // OffsetTree: an Execute into a tree while nothing has been added (must be a no-op), then - that tree being gone -
      // the paths are added and the same object is executed into plain paths and finally into a tree
      if (op == OffsetTree) { PolyTree64 t0; co.Execute(delta, t0); if (t0.Count()) { o.structuralOk = false; o.why = "an empty ClipperOffset produced output"; } }
      co.AddPaths(a, jt, et);
      if (!b.empty()) co.AddPaths(b, (JoinType)c.I("jt2", 2), (EndType)c.I("et2", 4));
      Paths64 sol;
      if (op == OffsetTree) {
        Paths64 first;
        co.Execute(delta, first);
        checkClosed(first, o);
        PolyTree64 t; co.Execute(delta, t); sol = PolyTreeToPaths64(t);
      } else co.Execute(delta, sol);
      checkClosed(sol, o);
      o.outSize = sol.size();
      break;
    }
    case RectPoly: case RectLines: {
      Rect64 r(c.I("l"), c.I("t"), c.I("r"), c.I("b"));
      Paths64 sol = op == RectPoly ? RectClip(r, a) : RectClipLines(r, a);
      o.outSize = sol.size();
      break;
    }
    case MinkSum: case MinkDiff: {
      Path64 pat = a.empty() ? Path64() : a[0], path = b.empty() ? Path64() : b[0];
      Paths64 sol = op == MinkSum ? MinkowskiSum(pat, path, c.I("closed") != 0) : MinkowskiDiff(pat, path, c.I("closed") != 0);
      checkClosed(sol, o);
      o.outSize = sol.size();
      break;
    }
    case Utils: {
      for (auto& p : a) {
        Path64 t1 = TrimCollinear(p, c.I("closed") == 0);
        Path64 t2 = SimplifyPath(p, c.D("eps", 1.0), c.I("closed") != 0);
        Path64 t3 = RamerDouglasPeucker(p, c.D("eps", 1.0));
        Path64 t4 = StripNearEqual(p, c.D("eps", 1.0), c.I("closed") != 0);
        o.outSize += t1.size() + t2.size() + t3.size() + t4.size();
      }
      Path64 e = Ellipse(Point64(0, 0), 50.0 + std::fabs(delta), 30.0, 0);
      o.outSize += e.size();
      break;
    }
    case InflateFree: {
      Paths64 sol = InflatePaths(a, delta, jt, et, c.D("ml", 2.0), c.D("at", 0.0));
      if (delta != 0) checkClosed(sol, o);   // delta 0 hands the input back unchanged
      o.outSize = sol.size();
      break;
    }
    default: {
      Paths64 sol = Union(a, b, fr);
      checkClosed(sol, o);
      o.outSize = sol.size();
    }
  }
  return o;
}

Case genCase(bool small) {
  Case c;
  int op = (int)G::range(0, NOPS - 1);
  c.i["op"] = op;
  // magnitude: boolean ops up to 2^62 (no UBSan overflow promise above 2^29, so this binary is built with the
  // overflow checks on and stays <= 2^29; the "big" classes are exercised by the fuzzbig libFuzzer builds)
  int cls = (int)G::range(0, 3);
  int64_t M = GEN::magOfClass(cls);
  GEN::DegPool pool;
  int mp = small ? 2 : 4, mv = small ? 7 : 12;
  c.p["a"] = GEN::degPaths(mp, mv, M, pool);
  c.p["b"] = GEN::degPaths(mp, mv, M, pool);
  if (G::chance(30)) c.p["open"] = GEN::degPaths(2, 5, M, pool);
  c.i["ct"] = G::range(0, 4); c.i["fr"] = G::range(0, 3);
  c.i["pc"] = G::range(0, 1); c.i["rev"] = G::range(0, 1); c.i["tree"] = G::range(0, 1);
  c.i["jt"] = G::range(0, 3); c.i["et"] = G::range(0, 4); c.i["jt2"] = G::range(0, 3); c.i["et2"] = G::range(0, 4);
  c.i["closed"] = G::range(0, 1);
  double dm = std::min<double>((double)M, 2000.0);
  c.d["delta"] = G::chance(20) ? G::real(-0.6, 0.6) : G::real(-dm, dm);
  c.d["ml"] = G::real(0.0, 5.0);
  c.d["at"] = G::coin() ? 0.0 : G::real(0.05, 3.0);
  c.d["eps"] = G::real(0.0, (double)std::min<int64_t>(M, 100));
  c.i["l"] = G::sym(M); c.i["t"] = G::sym(M); c.i["r"] = G::sym(M); c.i["b"] = G::sym(M);
  return c;
}

// polytree execution on tiny grids: overlapping collinear horizontal edges, joins and splits are the norm there,
// and the tree builder allocates in the middle of re-linking rings
Case genCaseTreeSmall() {
  Case c;
  c.i["op"] = BoolTree;
  int64_t g = G::range(3, 7);
  auto poly = [&]() { Path64 p; int n = (int)G::range(3, 8); for (int k = 0; k < n; ++k) p.emplace_back(G::range(0, g), G::range(0, g)); return p; };
  Paths64 a, b;
  int na = (int)G::range(1, 3), nb = (int)G::range(0, 2);
  if (G::coin()) {
    GEN::Lattice L{g, 1, 0, 0};
    for (int k = 0; k < na; ++k) a.push_back(GEN::rectWalk(L));
    for (int k = 0; k < nb; ++k) b.push_back(GEN::rectWalk(L));
  } else {
    for (int k = 0; k < na; ++k) a.push_back(poly());
    for (int k = 0; k < nb; ++k) b.push_back(poly());
  }
  c.p["a"] = a; c.p["b"] = b;
  c.i["ct"] = G::range(1, 4); c.i["fr"] = G::range(0, 3); c.i["pc"] = G::range(0, 1); c.i["rev"] = G::range(0, 1);
  return c;
}

Verdict judgeDeg(const Case& c) {
  Verdict v;
  int op = (int)c.I("op");
  if (op < 0 || op >= NOPS) { v.discard = true; return v; }
  Outcome o = runOp(c);
  if (!o.structuralOk) v.fail(std::string(opName(op)) + ": " + o.why);
  v.nontrivial = o.outSize > 0;
  ST.count(std::string("op_") + opName(op));
  return v;
}

Verdict judgeAlloc(const Case& c) {
  Verdict v;
  int op = (int)c.I("op");
  if (op < 0 || op >= NOPS) { v.discard = true; return v; }
  // counting run
  inj::count = 0; inj::failAt = 0; inj::active = true;
  try { runOp(c); } catch (...) { inj::active = false; v.fail("exception without an injected fault"); return v; }
  inj::active = false;
  uint64_t N = inj::count;
  if (N == 0) { v.discard = true; return v; }
  uint64_t step = N <= 400 ? 1 : (N + 399) / 400;
  uint64_t faults = 0;
  for (uint64_t k = 1; k <= N; k += step) {
    inj::count = 0; inj::failAt = k; inj::failedNothrow = false; inj::active = true;
    bool threw = false;
    try { runOp(c); } catch (const std::bad_alloc&) { threw = true; } catch (...) {
      inj::active = false;
      v.fail(std::string(opName(op)) + ": injected std::bad_alloc reached the caller as a different exception (allocation " + std::to_string(k) + " of " + std::to_string(N) + ")");
      return v;
    }
    bool reached = inj::count >= k;
    inj::active = false;
    ++faults;
    if (!threw && reached && inj::failedNothrow) {
      // a nothrow allocation (std::stable_sort's temporary buffer) returned nullptr: the standard library falls back
      // to an in-place algorithm, so completing normally is the correct behaviour
      ST.count("nothrow_allocation_failures_handled_by_fallback");
      continue;
    }
    if (!threw && reached) {
      v.fail(std::string(opName(op)) + ": allocation " + std::to_string(k) + " of " + std::to_string(N) + " failed but the operation completed as if nothing happened (std::bad_alloc swallowed)");
      return v;
    }
  }
  v.evals = faults;
  v.nontrivial = N >= 10;
  ST.count(std::string("op_") + opName(op));
  ST.count("faults_injected", faults);
  if (step == 1) ST.count("cases_with_every_allocation_point_enumerated");
  return v;
}

}  // namespace

int main(int argc, char** argv) {
  Harness H;
  H.property = "C10";
  H.parts.push_back({"deg", [] { return genCase(false); }, judgeDeg, nullptr, true});
  H.parts.push_back({"allocfail", [] { return genCase(true); }, judgeAlloc, nullptr, true});
  H.parts.push_back({"allocfail_tree", genCaseTreeSmall, judgeAlloc, nullptr, true});
  return harnessMain(argc, argv, H);
}
