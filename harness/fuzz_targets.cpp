// libFuzzer targets for C10 (memory safety / termination) with the C11 "success"
// and C03 "structural" oracles inside.  One source, the target is selected by
// -DFUZZ_TARGET=<n>:  1 bool   2 offset   3 rect   4 misc   5 export (C boundary)
// Compile-time variants: -DUSINGZ (with -DClipper2Lib=C2Z), -DFUZZ_BIG (magnitudes up to 2^62).
//
// VERIF_STATS=<file>: instead of fuzzing semantics only, append one line per
// executed input: "<nontrivial 0/1> <hash>" (used on the final corpus for evidence).
#include <fuzzer/FuzzedDataProvider.h>

#include <cstdint>
#include <cstdio>
#include <cstdlib>
#include <string>

#include "clipper2/clipper.h"
#include "clipper2/clipper.minkowski.h"
#if FUZZ_TARGET == 5
#include "cexport.hpp"
#endif

using namespace Clipper2Lib;

#ifndef FUZZ_TARGET
#error "FUZZ_TARGET required"
#endif

namespace {

bool g_nontrivial;
bool g_dump = getenv("VERIF_DUMP") != nullptr;
#define DUMPOP(...) do { if (g_dump) { fprintf(stderr, "DUMP op: " __VA_ARGS__); fprintf(stderr, "\n"); } } while (0)

[[noreturn]] void violation(const char* what) {
  fprintf(stderr, "VERIF-ORACLE-VIOLATION: %s\n", what);
  fflush(stderr);
  __builtin_trap();
}

struct Dec {
  FuzzedDataProvider& f;
  int cls;
  int64_t M;
  explicit Dec(FuzzedDataProvider& fdp, int maxCls) : f(fdp) {
    cls = f.ConsumeIntegralInRange<int>(0, maxCls);
    static const int64_t m[] = {8, 64, int64_t(1) << 20, int64_t(1) << 29, int64_t(1) << 40, int64_t(1) << 52, int64_t(1) << 62};
    M = m[cls];
  }
  int64_t coord() {
    if (cls == 0) return f.ConsumeIntegralInRange<int8_t>(-8, 8);
    if (cls == 1) return f.ConsumeIntegralInRange<int8_t>(-64, 64);
    if (cls == 2) return f.ConsumeIntegralInRange<int32_t>(-(1 << 20), 1 << 20);
    if (cls == 3) return f.ConsumeIntegralInRange<int32_t>(-(1 << 29), 1 << 29);
    return f.ConsumeIntegralInRange<int64_t>(-M, M);
  }
  Point64 pt() {
    int64_t x = coord(), y = coord();
#ifdef USINGZ
    return Point64(x, y, f.ConsumeIntegral<int8_t>());
#else
    return Point64(x, y);
#endif
  }
  Path64 path(int maxPts) {
    int n = f.ConsumeIntegralInRange<int>(0, maxPts);
    Path64 p;
    for (int k = 0; k < n && f.remaining_bytes() > 0; ++k) p.push_back(pt());
    return p;
  }
  Paths64 paths(int maxPaths, int maxPts) {
    int n = f.ConsumeIntegralInRange<int>(0, maxPaths);
    Paths64 r;
    for (int k = 0; k < n && f.remaining_bytes() > 0; ++k) r.push_back(path(maxPts));
    if (g_dump) { fprintf(stderr, "DUMP paths:"); for (auto& p : r) { fprintf(stderr, " ["); for (auto& q : p) fprintf(stderr, "%lld,%lld ", (long long)q.x, (long long)q.y); fprintf(stderr, "]"); } fprintf(stderr, "\n"); }
    return r;
  }
  PathsD pathsD(int maxPaths, int maxPts, double scale) {
    Paths64 p = paths(maxPaths, maxPts);
    PathsD r;
    for (auto& q : p) {
      PathD d;
      for (auto& v : q) {
#ifdef USINGZ
        d.emplace_back(v.x / scale, v.y / scale, v.z);
#else
        d.emplace_back(v.x / scale, v.y / scale);
#endif
      }
      r.push_back(d);
    }
    return r;
  }
};

void checkClosed(const Paths64& sol) {
  for (auto& p : sol) {
    if (p.size() < 3) violation("closed solution path with fewer than 3 vertices");
    for (size_t k = 0; k < p.size(); ++k) {
      const Point64 &a = p[k], &b = p[(k + 1) % p.size()];
      if (a.x == b.x && a.y == b.y) violation("closed solution path with equal consecutive vertices");
    }
  }
}
void walkTree(const PolyPath64& n, size_t& nodes) {
  for (size_t k = 0; k < n.Count(); ++k) { ++nodes; if (n[k]->Polygon().size() < 3) violation("polytree node with fewer than 3 vertices"); walkTree(*n[k], nodes); }
}

#ifdef FUZZ_BIG
constexpr int kMaxCls = 6;
#else
constexpr int kMaxCls = 3;   // |coord| <= 2^29: arithmetic must be free of signed overflow (full UBSan)
#endif

// ---------------------------------------------------------------------------
#if FUZZ_TARGET == 1
void target(FuzzedDataProvider& f) {
  Dec d(f, kMaxCls);
  bool useD = f.ConsumeBool();
  int nops = f.ConsumeIntegralInRange<int>(1, 8);
  if (!useD) {
    Clipper64 c;
    ReuseableDataContainer64 rdc;
    bool rdcAttached = false;
#ifdef USINGZ
    int64_t zc = 0;
    if (f.ConsumeBool()) c.SetZCallback([&zc](const Point64&, const Point64&, const Point64&, const Point64&, Point64& pt) { pt.z = ++zc; });
#endif
    for (int op = 0; op < nops && f.remaining_bytes() > 0; ++op) {
      int opc = f.ConsumeIntegralInRange<int>(0, 8);
      DUMPOP("%d (0 subj,1 clip,2 open,3 pc,4 rev,5 clear,6 reuse,7+ exec)", opc);
      switch (opc) {
        case 0: c.AddSubject(d.paths(4, 12)); break;
        case 1: c.AddClip(d.paths(4, 12)); break;
        case 2: c.AddOpenSubject(d.paths(3, 8)); break;
        case 3: c.PreserveCollinear(f.ConsumeBool()); break;
        case 4: c.ReverseSolution(f.ConsumeBool()); break;
        case 5: c.Clear(); rdcAttached = false; break;
        case 6: {
          // a container is filled first and attached to a clipper at most once between Clear() calls
          // (attaching one container twice to the same clipper is not a usage any caller has)
          if (rdcAttached) break;
          rdc.AddPaths(d.paths(3, 10), f.ConsumeBool() ? PathType::Subject : PathType::Clip, false);
          c.AddReuseableData(rdc);
          rdcAttached = true;
          break;
        }
        default: {
          int ct = f.ConsumeIntegralInRange<int>(0, 4), fr = f.ConsumeIntegralInRange<int>(0, 3);
          Paths64 closed, open;
          bool ok;
          bool useTree = f.ConsumeBool();
          DUMPOP("execute ct=%d fr=%d tree=%d", ct, fr, (int)useTree);
          if (useTree) {
            PolyTree64 tree;
            ok = c.Execute((ClipType)ct, (FillRule)fr, tree, open);
            size_t nodes = 0;
            walkTree(tree, nodes);
            closed = PolyTreeToPaths64(tree);
            if (nodes) g_nontrivial = true;
          } else {
            ok = c.Execute((ClipType)ct, (FillRule)fr, closed, open);
          }
          if (!ok) violation("Execute returned false");
          if (ct == 0 && (!closed.empty() || !open.empty())) violation("ClipType::NoClip produced a non-empty solution");
          checkClosed(closed);
          if (!closed.empty() || !open.empty()) g_nontrivial = true;
        }
      }
    }
  } else {
    int prec = f.ConsumeIntegralInRange<int>(-8, 8);
    double scale = std::pow(10.0, prec);
    // keep |coord * internal scale| within the valid range: internal scale < 2 * 10^prec
    if ((double)d.M * 2.0 >= (double)MAX_COORD) return;
    ClipperD c(prec);
    for (int op = 0; op < nops && f.remaining_bytes() > 0; ++op) {
      switch (f.ConsumeIntegralInRange<int>(0, 6)) {
        case 0: c.AddSubject(d.pathsD(4, 12, scale)); break;
        case 1: c.AddClip(d.pathsD(4, 12, scale)); break;
        case 2: c.AddOpenSubject(d.pathsD(3, 8, scale)); break;
        case 3: c.PreserveCollinear(f.ConsumeBool()); break;
        case 4: c.Clear(); break;
        default: {
          int ct = f.ConsumeIntegralInRange<int>(0, 4), fr = f.ConsumeIntegralInRange<int>(0, 3);
          PathsD closed, open;
          bool ok;
          if (f.ConsumeBool()) {
            PolyTreeD tree;
            ok = c.Execute((ClipType)ct, (FillRule)fr, tree, open);
            closed = PolyTreeToPathsD(tree);
          } else {
            ok = c.Execute((ClipType)ct, (FillRule)fr, closed, open);
          }
          if (!ok) violation("ClipperD::Execute returned false");
          if (ct == 0 && (!closed.empty() || !open.empty())) violation("ClipType::NoClip produced a non-empty solution (ClipperD)");
          for (auto& p : closed) if (p.size() < 3) violation("ClipperD closed path with fewer than 3 vertices");
          if (!closed.empty() || !open.empty()) g_nontrivial = true;
        }
      }
    }
  }
}
#endif

// ---------------------------------------------------------------------------
#if FUZZ_TARGET == 2
void target(FuzzedDataProvider& f) {
  Dec d(f, std::min(kMaxCls, 4));   // offsetting: |coord| <= 2^40
  double ml = f.ConsumeFloatingPointInRange<double>(0.0, 100.0);
  double at = f.ConsumeBool() ? 0.0 : f.ConsumeFloatingPointInRange<double>(0.01, 50.0);
  ClipperOffset co(ml, at, f.ConsumeBool(), f.ConsumeBool());
  int ngroups = f.ConsumeIntegralInRange<int>(1, 4);
  for (int g = 0; g < ngroups && f.remaining_bytes() > 0; ++g) {
    JoinType jt = (JoinType)f.ConsumeIntegralInRange<int>(0, 3);
    EndType et = (EndType)f.ConsumeIntegralInRange<int>(0, 4);
    if (f.ConsumeBool()) co.AddPaths(d.paths(4, 10), jt, et);
    else co.AddPath(d.path(10), jt, et);
  }
  // |delta| <= 2^20 and, with round joins, bounded relative to the arc tolerance so that the
  // number of arc steps stays < ~10^6 (no caller contract covers more)
  double delta = f.ConsumeFloatingPointInRange<double>(-1048576.0, 1048576.0);
  if (f.ConsumeBool()) delta = f.ConsumeFloatingPointInRange<double>(-20.0, 20.0);
  int mode = f.ConsumeIntegralInRange<int>(0, 2);
  Paths64 sol;
  if (mode == 0) co.Execute(delta, sol);
  else if (mode == 1) { PolyTree64 t; co.Execute(delta, t); sol = PolyTreeToPaths64(t); }
  else {
    double d2 = f.ConsumeFloatingPointInRange<double>(-30.0, 30.0);
    co.Execute([delta, d2](const Path64&, const PathD&, size_t curr, size_t) { return (curr & 1) ? delta : d2; }, sol);
  }
  checkClosed(sol);
  if (!sol.empty()) g_nontrivial = true;
  if (f.ConsumeBool()) {   // reuse the object
    co.Clear();
    co.AddPaths(d.paths(2, 8), JoinType::Round, EndType::Round);
    co.Execute(f.ConsumeFloatingPointInRange<double>(-100.0, 100.0), sol);
  }
}
#endif

// ---------------------------------------------------------------------------
#if FUZZ_TARGET == 3
void target(FuzzedDataProvider& f) {
  Dec d(f, std::min(kMaxCls, 4));
  int64_t l = d.coord(), t = d.coord(), r = d.coord(), b = d.coord();
  Rect64 rect(l, t, r, b);
  Paths64 in = d.paths(4, 14);
  if (f.ConsumeBool()) {   // snap some vertices onto the rectangle
    for (auto& p : in) for (auto& q : p) {
      int k = f.ConsumeIntegralInRange<int>(0, 7);
      if (k == 0) q.x = l; else if (k == 1) q.x = r; else if (k == 2) q.y = t; else if (k == 3) q.y = b;
    }
  }
  int mode = f.ConsumeIntegralInRange<int>(0, 3);
  if (mode == 0) { Paths64 s = RectClip(rect, in); if (!s.empty()) g_nontrivial = true; }
  else if (mode == 1) { Paths64 s = RectClipLines(rect, in); if (!s.empty()) g_nontrivial = true; }
  else {
    if ((double)d.M * 100.0 >= (double)MAX_COORD) return;
    RectD rd((double)l / 4, (double)t / 4, (double)r / 4, (double)b / 4);
    PathsD ind;
    for (auto& p : in) { PathD q; for (auto& v : p) q.emplace_back(v.x / 4.0, v.y / 4.0); ind.push_back(q); }
    PathsD s = mode == 2 ? RectClip(rd, ind, 2) : RectClipLines(rd, ind, 2);
    if (!s.empty()) g_nontrivial = true;
  }
  // object reuse
  RectClip64 rc(rect);
  Paths64 a = rc.Execute(in), b2 = rc.Execute(in);
  if (a != b2) violation("RectClip64::Execute not repeatable on one object");
}
#endif

// ---------------------------------------------------------------------------
#if FUZZ_TARGET == 4
void target(FuzzedDataProvider& f) {
  Dec d(f, std::min(kMaxCls, 4));
  int which = f.ConsumeIntegralInRange<int>(0, 12);
  Path64 p = d.path(14);
  double eps = f.ConsumeFloatingPointInRange<double>(0.0, 1000.0);
  if (f.ConsumeBool()) eps = f.ConsumeFloatingPointInRange<double>(0.0, 3.0);
  switch (which) {
    case 0: { Path64 q = d.path(8); Paths64 s = MinkowskiSum(q, p, f.ConsumeBool()); checkClosed(s); if (!s.empty()) g_nontrivial = true; break; }
    case 1: { Path64 q = d.path(8); Paths64 s = MinkowskiDiff(q, p, f.ConsumeBool()); checkClosed(s); if (!s.empty()) g_nontrivial = true; break; }
    case 2: { Path64 s = TrimCollinear(p, f.ConsumeBool()); g_nontrivial = s.size() < p.size(); break; }
    case 3: { Path64 s = SimplifyPath(p, eps, f.ConsumeBool()); g_nontrivial = s.size() < p.size(); break; }
    case 4: { Path64 s = RamerDouglasPeucker(p, eps); g_nontrivial = s.size() < p.size(); break; }
    case 5: { bool cl = f.ConsumeBool(); StripDuplicates(p, cl); g_nontrivial = true; break; }
    case 6: { Path64 s = StripNearEqual(p, eps, f.ConsumeBool()); g_nontrivial = s.size() < p.size(); break; }
    case 7: {
      Point64 c = d.pt();
      double rx = f.ConsumeFloatingPointInRange<double>(-10.0, 100000.0), ry = f.ConsumeFloatingPointInRange<double>(-10.0, 100000.0);
      size_t steps = f.ConsumeIntegralInRange<size_t>(0, 300);
      Path64 e = Ellipse(c, rx, ry, steps);
      g_nontrivial = !e.empty();
      break;
    }
    case 8: { Point64 q = d.pt(); (void)PointInPolygon(q, p); g_nontrivial = p.size() >= 3; break; }
    case 9: { volatile double a = Area(p) + Length(p, f.ConsumeBool()); (void)a; Rect64 r = GetBounds(p); (void)r; g_nontrivial = !p.empty(); break; }
    case 10: { if (d.M <= (int64_t(1) << 40)) { Path64 s = TranslatePath(p, d.coord(), d.coord()); g_nontrivial = !s.empty(); } break; }
    case 11: { Paths64 pp = d.paths(3, 10); Paths64 s = SimplifyPaths(pp, eps, f.ConsumeBool()); Paths64 s2 = RamerDouglasPeucker(pp, eps); g_nontrivial = !s.empty() || !s2.empty(); break; }
    default: {
      Paths64 pp = d.paths(3, 10);
      Paths64 u = Union(pp, (FillRule)f.ConsumeIntegralInRange<int>(0, 3));
      checkClosed(u);
      double dl = f.ConsumeFloatingPointInRange<double>(-50.0, 50.0);
      Paths64 i = InflatePaths(pp, dl, (JoinType)f.ConsumeIntegralInRange<int>(0, 3), (EndType)f.ConsumeIntegralInRange<int>(0, 4));
      if (dl != 0) checkClosed(i);   // InflatePaths(paths, 0, ...) hands the input back unchanged by definition
      g_nontrivial = !u.empty() || !i.empty();
    }
  }
}
#endif

// ---------------------------------------------------------------------------
#if FUZZ_TARGET == 5
// every exported function: inputs are heap blocks of exactly the stated length (ASan sees any over-read), every
// returned array is walked to its stated length by the harness decoder and released with DisposeArray*
template <class T>
void walk(T* a, bool tree) {
  if (!a) return;
  cx::DecodeInfo di;
  if (tree) cx::decodeTree(a, di); else cx::decodePaths(a, di);
  if (!di.ok) violation(di.why);
  g_nontrivial = g_nontrivial || di.count > 0;
}
void target(FuzzedDataProvider& f) {
  Dec d(f, std::min(kMaxCls, 4));
  int fn = f.ConsumeIntegralInRange<int>(0, 13);
  uint8_t ct = f.ConsumeIntegralInRange<uint8_t>(0, 6), fr = f.ConsumeIntegralInRange<uint8_t>(0, 5);
  bool pc = f.ConsumeBool(), rev = f.ConsumeBool();
  int prec = f.ConsumeIntegralInRange<int>(-9, 9);
  uint8_t jt = f.ConsumeIntegralInRange<uint8_t>(0, 3), et = f.ConsumeIntegralInRange<uint8_t>(0, 4);
  double delta = f.ConsumeFloatingPointInRange<double>(-5000.0, 5000.0);
  double ml = f.ConsumeFloatingPointInRange<double>(0.0, 10.0), at = f.ConsumeBool() ? 0.0 : f.ConsumeFloatingPointInRange<double>(0.01, 20.0);
  Paths64 s = d.paths(3, 10), c = d.paths(3, 10), o = d.paths(2, 6);
  double div = std::pow(10.0, std::max(-8, std::min(8, prec)));
  // keep the scaled doubles inside the valid coordinate range (out-of-range input is C11's subject, it throws)
  bool dOk = (double)d.M < 1e15 && (double)d.M * 2.0 < (double)MAX_COORD;
  auto toD = [&](const Paths64& pp) { PathsD r; for (auto& p : pp) { PathD q; for (auto& v : p) {
#ifdef USINGZ
    q.emplace_back(v.x / div, v.y / div, v.z);
#else
    q.emplace_back(v.x / div, v.y / div);
#endif
  } r.push_back(q); } return r; };
  int64_t *s64 = cx::encodePaths(s, true), *c64 = cx::encodePaths(c, true), *o64 = cx::encodePaths(o, true);
  PathsD sd = toD(s), cd = toD(c), od = toD(o);
  double *sD = cx::encodePaths(sd, true), *cD = cx::encodePaths(cd, true), *oD = cx::encodePaths(od, true);
  int64_t l = d.coord(), t = d.coord(), r = d.coord(), b = d.coord();
  CRect64 cr{std::min(l, r), std::min(t, b), std::max(l, r), std::max(t, b)};
  CRectD crd{cr.left / div, cr.top / div, cr.right / div, cr.bottom / div};
  switch (fn) {
    case 0: { int64_t *sol = nullptr, *so = nullptr; int rc = BooleanOp64(ct, fr, s64, o64, c64, sol, so, pc, rev); if (rc == 0) { walk(sol, false); walk(so, false); } else if (sol || so) violation("outputs set on a rejected call"); if (sol) DisposeArray64(sol); if (so) DisposeArray64(so); break; }
    case 1: { int64_t *sol = nullptr, *so = nullptr; int rc = BooleanOp_PolyTree64(ct, fr, s64, o64, c64, sol, so, pc, rev); if (rc == 0) { walk(sol, true); walk(so, false); } if (sol) DisposeArray64(sol); if (so) DisposeArray64(so); break; }
    case 2: if (dOk) { double *sol = nullptr, *so = nullptr; int rc = BooleanOpD(ct, fr, sD, oD, cD, sol, so, prec, pc, rev); if (rc == 0) { walk(sol, false); walk(so, false); } if (sol) DisposeArrayD(sol); if (so) DisposeArrayD(so); } break;
    case 3: if (dOk) { double *sol = nullptr, *so = nullptr; int rc = BooleanOp_PolyTreeD(ct, fr, sD, oD, cD, sol, so, prec, pc, rev); if (rc == 0) { walk(sol, true); walk(so, false); } if (sol) DisposeArrayD(sol); if (so) DisposeArrayD(so); } break;
    case 4: { int64_t* res = InflatePaths64(s64, delta, jt, et, ml, at, rev); walk(res, false); if (res) DisposeArray64(res); break; }
    case 5: if (dOk) { double* res = InflatePathsD(sD, delta / div, jt, et, prec, ml, at / div, rev); walk(res, false); if (res) DisposeArrayD(res); } break;
    case 6: if (!s.empty()) { int64_t* p1 = cx::encodePath(s[0]); int64_t* res = InflatePath64(p1, delta, jt, et, ml, at, rev); walk(res, false); if (res) DisposeArray64(res); delete[] p1; } break;
    case 7: if (dOk && !sd.empty()) { double* p1 = cx::encodePath(sd[0]); double* res = InflatePathD(p1, delta / div, jt, et, prec, ml, at / div, rev); walk(res, false); if (res) DisposeArrayD(res); delete[] p1; } break;
    case 8: { int64_t* res = RectClip64(cr, s64); walk(res, false); if (res) DisposeArray64(res); break; }
    case 9: if (dOk) { double* res = RectClipD(crd, sD, prec); walk(res, false); if (res) DisposeArrayD(res); } break;
    case 10: { int64_t* res = RectClipLines64(cr, s64); walk(res, false); if (res) DisposeArray64(res); break; }
    case 11: if (dOk) { double* res = RectClipLinesD(crd, sD, prec); walk(res, false); if (res) DisposeArrayD(res); } break;
    default: if (!s.empty() && !c.empty()) {
      int64_t *pa = cx::encodePath(s[0]), *pb = cx::encodePath(c[0]);
      int64_t* res = fn == 12 ? MinkowskiSum64(pa, pb, pc) : MinkowskiDiff64(pa, pb, pc);
      walk(res, false); if (res) DisposeArray64(res);
      delete[] pa; delete[] pb;
    }
  }
  delete[] s64; delete[] c64; delete[] o64; delete[] sD; delete[] cD; delete[] oD;
}
#endif

}  // namespace

extern "C" int LLVMFuzzerTestOneInput(const uint8_t* data, size_t size) {
  static FILE* stats = getenv("VERIF_STATS") ? fopen(getenv("VERIF_STATS"), "a") : nullptr;
  g_nontrivial = false;
  FuzzedDataProvider f(data, size);
  target(f);
  if (stats) {
    uint64_t h = 1469598103934665603ull;
    for (size_t k = 0; k < size; ++k) { h ^= data[k]; h *= 1099511628211ull; }
    fprintf(stats, "%d %016llx\n", g_nontrivial ? 1 : 0, (unsigned long long)h);
    fflush(stats);
  }
  return 0;
}
