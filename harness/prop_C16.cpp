// C16 — the floating-point API is the integer API on scaled coordinates.
#include "gen.hpp"
#include "clipper2/clipper.minkowski.h"

namespace {

enum Op { D_ClipperPaths, D_ClipperTree, D_BooleanOp, D_Inflate, D_RectClip, D_RectClipLines, D_MinkSum, D_MinkDiff, D_Trim, D_NOPS };
const char* opName(int op) { static const char* n[] = {"ClipperD(paths)", "ClipperD(tree)", "BooleanOp(PathsD)", "InflatePaths(PathsD)", "RectClip(PathsD)", "RectClipLines(PathsD)", "MinkowskiSum(PathD)", "MinkowskiDiff(PathD)", "TrimCollinear(PathD)"}; return n[op]; }

double clipperDScale(int p) { return std::pow(2.0, std::ilogb(std::pow(10.0, p)) + 1); }

Path64 scaleIn(const PathD& p, double s) { Path64 r; for (auto& q : p) r.emplace_back((int64_t)std::llround(q.x * s), (int64_t)std::llround(q.y * s)); return r; }
Paths64 scaleIn(const PathsD& pp, double s) { Paths64 r; for (auto& p : pp) r.push_back(scaleIn(p, s)); return r; }

bool closeTo(double got, int64_t iv, double scale) {
  if ((int64_t)std::llround(got * scale) != iv) return false;
  double want = (double)iv / scale;
  double ulp = std::nextafter(std::fabs(want), INFINITY) - std::fabs(want);
  return std::fabs(got - want) <= 4 * ulp;
}
bool samePaths(const PathsD& got, const Paths64& want, double scale, std::string& why) {
  if (got.size() != want.size()) { why = "number of paths " + std::to_string(got.size()) + " vs " + std::to_string(want.size()) + " from the integer API"; return false; }
  for (size_t i = 0; i < got.size(); ++i) {
    if (got[i].size() != want[i].size()) { why = "path " + std::to_string(i) + " has " + std::to_string(got[i].size()) + " vertices, the integer API gives " + std::to_string(want[i].size()); return false; }
    for (size_t k = 0; k < got[i].size(); ++k)
      if (!closeTo(got[i][k].x, want[i][k].x, scale) || !closeTo(got[i][k].y, want[i][k].y, scale)) {
        char b[200];
        snprintf(b, sizeof b, "path %zu vertex %zu is (%.17g,%.17g), integer result (%lld,%lld)/scale", i, k, got[i][k].x, got[i][k].y, (long long)want[i][k].x, (long long)want[i][k].y);
        why = b;
        return false;
      }
  }
  return true;
}
void flat64(const PolyPath64& n, Paths64& polys, std::vector<int>& shape) { for (size_t k = 0; k < n.Count(); ++k) { polys.push_back(n[k]->Polygon()); shape.push_back((int)n[k]->Level() * 1000 + (int)n[k]->Count() * 2 + (n[k]->IsHole() ? 1 : 0)); flat64(*n[k], polys, shape); } }
void flatD(const PolyPathD& n, PathsD& polys, std::vector<int>& shape) { for (size_t k = 0; k < n.Count(); ++k) { polys.push_back(n[k]->Polygon()); shape.push_back((int)n[k]->Level() * 1000 + (int)n[k]->Count() * 2 + (n[k]->IsHole() ? 1 : 0)); flatD(*n[k], polys, shape); } }

Verdict judge(const Case& c) {
  Verdict v;
  int op = (int)c.I("op"), prec = (int)c.I("precision");
  if (op < 0 || op >= D_NOPS || prec < -8 || prec > 8) { v.discard = true; return v; }
  const PathsD& subj = c.PD("subj");
  const PathsD& clip = c.PD("clip");
  const PathsD& open = c.PD("open");
  ClipType ct = (ClipType)(1 + (c.I("ct") & 3));
  FillRule fr = (FillRule)(c.I("fr") & 3);
  bool pc = c.I("pc") != 0, rev = c.I("rev") != 0;
  double s10 = std::pow(10.0, prec), s2 = clipperDScale(prec);
  // domain: scaled coordinates within +-2^52
  double lim = std::ldexp(1.0, 52), maxc = 0;
  bool fractional = false;
  double sUse = op <= D_BooleanOp ? s2 : s10;
  for (auto* pp : {&subj, &clip, &open}) for (auto& p : *pp) for (auto& q : p) { maxc = std::max(maxc, std::max(std::fabs(q.x), std::fabs(q.y))); if (q.x * sUse != std::floor(q.x * sUse)) fractional = true; }
  if (maxc * std::max(s10, s2) > lim) { v.discard = true; return v; }
  std::string why, cfg = std::string(" [") + opName(op) + ",precision=" + std::to_string(prec) + "," + O::ctName(ct) + "," + O::frName(fr) + "]";
  v.evals = 1;
  size_t outSize = 0;
  switch (op) {
    case D_ClipperPaths: case D_ClipperTree: {
      ClipperD cd(prec);
      cd.PreserveCollinear(pc); cd.ReverseSolution(rev);
      cd.AddSubject(subj); cd.AddClip(clip); if (!open.empty()) cd.AddOpenSubject(open);
      Clipper64 c64;
      c64.PreserveCollinear(pc); c64.ReverseSolution(rev);
      c64.AddSubject(scaleIn(subj, s2)); c64.AddClip(scaleIn(clip, s2)); if (!open.empty()) c64.AddOpenSubject(scaleIn(open, s2));
      PathsD gotC, gotO;
      Paths64 wantC, wantO;
      if (op == D_ClipperPaths) { cd.Execute(ct, fr, gotC, gotO); c64.Execute(ct, fr, wantC, wantO); }
      else {
        PolyTreeD td; PolyTree64 t64;
        cd.Execute(ct, fr, td, gotO); c64.Execute(ct, fr, t64, wantO);
        std::vector<int> sd, s64;
        flatD(td, gotC, sd); flat64(t64, wantC, s64);
        if (sd != s64) { v.fail("PolyTreeD does not have the shape of the PolyTree64 of the scaled input" + cfg); return v; }
      }
      if (!samePaths(gotC, wantC, s2, why)) { v.fail("closed solution: " + why + cfg); return v; }
      if (!samePaths(gotO, wantO, s2, why)) { v.fail("open solution: " + why + cfg); return v; }
      outSize = gotC.size() + gotO.size();
      break;
    }
    case D_BooleanOp: {
      // three routes to the same operation: BooleanOp, the named wrapper, BooleanOp into a PolyTreeD (flattened)
      int alt = (int)c.I("alt", 0);
      PathsD got;
      Paths64 want = BooleanOp(ct, fr, scaleIn(subj, s2), scaleIn(clip, s2));
      if (alt == 1) {
        switch (ct) {
          case ClipType::Intersection: got = Intersect(subj, clip, fr, prec); break;
          case ClipType::Union: got = c.I("closed") && clip.empty() ? Union(subj, fr, prec) : Union(subj, clip, fr, prec); break;
          case ClipType::Difference: got = Difference(subj, clip, fr, prec); break;
          default: got = Xor(subj, clip, fr, prec); break;
        }
        ST.count("booleanop_via_named_wrapper");
      } else if (alt == 2) {
        PolyTreeD t;
        BooleanOp(ct, fr, subj, clip, t, prec);
        got = PolyTreeToPathsD(t);
        PolyTree64 t64;
        BooleanOp(ct, fr, scaleIn(subj, s2), scaleIn(clip, s2), t64);
        want = PolyTreeToPaths64(t64);
        ST.count("booleanop_via_polytreeD");
      } else got = BooleanOp(ct, fr, subj, clip, prec);
      if (!samePaths(got, want, s2, why)) { v.fail(why + cfg); return v; }
      outSize = got.size();
      break;
    }
    case D_Inflate: {
      double delta = c.D("delta"), ml = c.D("ml", 2.0), at = c.D("at", 0.0);
      if (delta == 0) { v.discard = true; return v; }
      JoinType jt = (JoinType)(c.I("jt") & 3);
      EndType et = (EndType)(c.I("et") % 5);
      PathsD got = InflatePaths(subj, delta, jt, et, ml, prec, at);
      ClipperOffset co(ml, at * s10);
      co.AddPaths(scaleIn(subj, s10), jt, et);
      Paths64 want;
      co.Execute(delta * s10, want);
      if (!samePaths(got, want, s10, why)) { v.fail(why + cfg + " delta=" + std::to_string(delta) + " arc_tol=" + std::to_string(at)); return v; }
      outSize = got.size();
      break;
    }
    case D_RectClip: case D_RectClipLines: {
      RectD rd(c.D("l"), c.D("t"), c.D("r"), c.D("b"));
      if (rd.IsEmpty() || subj.empty()) { v.discard = true; return v; }
      Rect64 r64((int64_t)std::llround(rd.left * s10), (int64_t)std::llround(rd.top * s10), (int64_t)std::llround(rd.right * s10), (int64_t)std::llround(rd.bottom * s10));
      // the PathsD overload, or (alt == 1) the single-PathD overload on the first path
      bool single = c.I("alt", 0) == 1;
      PathsD in = single ? PathsD{subj[0]} : subj;
      PathsD got = single ? (op == D_RectClip ? RectClip(rd, subj[0], prec) : RectClipLines(rd, subj[0], prec))
                          : (op == D_RectClip ? RectClip(rd, subj, prec) : RectClipLines(rd, subj, prec));
      if (single) ST.count("rect_single_path_overload");
      Paths64 want = op == D_RectClip ? RectClip64(r64).Execute(scaleIn(in, s10)) : RectClipLines64(r64).Execute(scaleIn(in, s10));
      if (r64.IsEmpty()) want.clear();
      if (!samePaths(got, want, s10, why)) { v.fail(why + cfg); return v; }
      outSize = got.size();
      break;
    }
    case D_MinkSum: case D_MinkDiff: {
      if (subj.empty() || clip.empty()) { v.discard = true; return v; }
      bool closed = c.I("closed") != 0;
      int dp = std::max(-4, std::min(4, prec));
      double s = std::pow(10.0, dp);
      PathsD got = op == D_MinkSum ? MinkowskiSum(subj[0], clip[0], closed, dp) : MinkowskiDiff(subj[0], clip[0], closed, dp);
      Paths64 want = op == D_MinkSum ? MinkowskiSum(scaleIn(subj[0], s), scaleIn(clip[0], s), closed) : MinkowskiDiff(scaleIn(subj[0], s), scaleIn(clip[0], s), closed);
      if (!samePaths(got, want, s, why)) { v.fail(why + cfg); return v; }
      outSize = got.size();
      break;
    }
    default: {
      if (subj.empty()) { v.discard = true; return v; }
      bool isOpen = c.I("closed") == 0;
      PathD got = TrimCollinear(subj[0], prec, isOpen);
      Path64 want = TrimCollinear(scaleIn(subj[0], s10), isOpen);
      if (!samePaths(PathsD{got}, Paths64{want}, s10, why)) { v.fail(why + cfg); return v; }
      outSize = got.empty() ? 0 : 1;
    }
  }
  v.nontrivial = fractional && outSize > 0;
  ST.count(std::string("op_") + opName(op));
  ST.count("precision_" + std::to_string(prec));
  return v;
}

PathD genPathD(int nmin, int nmax, double scale, int64_t K) {
  int n = (int)G::range(nmin, nmax);
  PathD p;
  static const std::vector<double> fr = {0.0, 0.0, 0.5, -0.5, 0.25, 0.49999999, 0.50000001, -0.49999999};
  for (int k = 0; k < n; ++k) {
    double fx = G::chance(70) ? G::oneOf(fr) : G::real(-0.5, 0.5), fy = G::chance(70) ? G::oneOf(fr) : G::real(-0.5, 0.5);
    p.emplace_back(((double)G::sym(K) + fx) / scale, ((double)G::sym(K) + fy) / scale);
  }
  return p;
}

Case gen() {
  Case c;
  int op = (int)G::range(0, D_NOPS - 1);
  int prec = G::chance(60) ? (int)G::range(-8, 8) : (int)G::oneOf(std::vector<int64_t>{-8, -2, 0, 2, 2, 3, 8});
  c.i["op"] = op; c.i["precision"] = prec;
  double scale = op <= D_BooleanOp ? clipperDScale(prec) : std::pow(10.0, op == D_MinkSum || op == D_MinkDiff ? std::max(-4, std::min(4, prec)) : prec);
  int64_t K = G::oneOf(std::vector<int64_t>{10, 100, 100, 5000, 1000000, int64_t(1) << 40});
  if (op == D_Inflate) K = std::min<int64_t>(K, 1000000);
  PathsD subj, clip, open;
  int ns = (int)G::range(1, 2), nc = (int)G::range(0, 2);
  for (int k = 0; k < ns; ++k) subj.push_back(genPathD(op == D_RectClipLines ? 2 : 3, 8, scale, K));
  for (int k = 0; k < nc; ++k) clip.push_back(genPathD(3, 8, scale, K));
  if ((op == D_MinkSum || op == D_MinkDiff) && clip.empty()) clip.push_back(genPathD(2, 6, scale, K));
  if (op <= D_ClipperTree && G::chance(30)) open.push_back(genPathD(2, 5, scale, K));
  c.pd["subj"] = subj; c.pd["clip"] = clip;
  if (!open.empty()) c.pd["open"] = open;
  c.i["ct"] = G::range(0, 3); c.i["fr"] = G::range(0, 3); c.i["pc"] = G::range(0, 1); c.i["rev"] = G::range(0, 1);
  c.i["jt"] = G::range(0, 3); c.i["et"] = G::range(0, 4); c.i["closed"] = G::range(0, 1); c.i["alt"] = G::range(0, 2);
  double ds = (double)K / scale;
  c.d["delta"] = G::real(-0.3, 0.3) * ds + (G::coin() ? 0.7 / scale : 0);
  c.d["ml"] = G::real(1.0, 4.0);
  c.d["at"] = G::coin() ? 0.0 : G::real(0.05, 3.0) / scale;
  double a = ((double)G::sym(K) + (G::coin() ? 0.5 : 0.0)) / scale, b = ((double)G::sym(K) + (G::coin() ? 0.5 : 0.0)) / scale;
  double cc = (double)G::sym(K) / scale, d = ((double)G::sym(K) + G::real(-0.5, 0.5)) / scale;
  c.d["l"] = std::min(a, b); c.d["r"] = std::max(a, b); c.d["t"] = std::min(cc, d); c.d["b"] = std::max(cc, d);
  return c;
}

}  // namespace

int main(int argc, char** argv) {
  Harness H;
  H.property = "C16";
  H.parts.push_back({"pathsd", gen, judge, nullptr, true});
  return harnessMain(argc, argv, H);
}
