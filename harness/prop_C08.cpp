// C08 — RectClip equals intersection with the rectangle, path by path.
// C09 — RectClipLines returns exactly the parts of each polyline inside the rectangle.
// (one source, two binaries: -DPROP_C09 selects the C09 harness)
#include "gen.hpp"

namespace {

struct R4 { int64_t l, t, r, b; };
R4 rectOf(const Case& c) { return {c.I("l"), c.I("t"), c.I("r"), c.I("b")}; }

// G-rc: rectangle + paths with a fraction of the vertices snapped to side lines / corners
Case genRc(bool open) {
  Case c;
  int64_t M = G::oneOf(std::vector<int64_t>{30, 200, 200, 1000000, int64_t(1) << 39});
  int64_t x0 = G::sym(M), x1 = G::sym(M), y0 = G::sym(M), y1 = G::sym(M);
  if (x0 == x1) x1 = x0 + 1 + G::range(0, M / 4 + 1);
  if (y0 == y1) y1 = y0 + 1 + G::range(0, M / 4 + 1);
  if (G::chance(6)) {   // coincidences: a rectangle one unit wide or high, an exact square, a rectangle at the top of the allowed magnitude
    int k = (int)G::range(0, 3);
    if (k == 0) x1 = x0 + 1; else if (k == 1) y1 = y0 + 1;
    else if (k == 2) { int64_t a = 1 + G::range(0, M); x1 = x0 + a; y1 = y0 + a; }
    else { int64_t T = int64_t(1) << 40; x1 = T; x0 = T - 1 - G::range(0, M); y0 = -T; y1 = -T + 1 + G::range(0, M); }
    ST.count("special_rectangle");
  }
  R4 r{std::min(x0, x1), std::min(y0, y1), std::max(x0, x1), std::max(y0, y1)};
  c.i["l"] = r.l; c.i["t"] = r.t; c.i["r"] = r.r; c.i["b"] = r.b;
  int snapPct = (int)G::oneOf(std::vector<int64_t>{0, 0, 15, 40, 60});
  int n = (int)G::range(1, 3);
  Paths64 pp;
  int64_t W = r.r - r.l, H = r.b - r.t;
  for (int k = 0; k < n; ++k) {
    int kind = (int)G::range(0, 7);
    Path64 p;
    int nv = (int)G::range(open ? 2 : 3, 10);
    if (G::chance(1) && G::chance(open ? 60 : 25)) { nv = (int)G::range(60, open ? 400 : 200); ST.count("large_path_60_to_400_vertices"); }   // size-dependent behaviour (container growth)
    int64_t ext = std::min<int64_t>((int64_t(1) << 40) - std::max(std::abs(r.l), std::abs(r.r)) - 1, std::max<int64_t>(W, H) + 5);
    ext = std::max<int64_t>(ext, 1);
    if (!open && G::chance(6) && W >= 3 && H >= 3) {
      // a SIMPLE polygon that encloses the rectangle without touching it and folds like an accordion around one corner:
      // it alternates k times between the strip beside one side and the region beyond the adjacent side (the orientation
      // of the rectangle RectClip returns is decided from exactly these zone-to-zone steps)
      bool left = G::coin(), top = G::coin();
      int64_t cx = left ? r.l : r.r, cy = top ? r.t : r.b, ox = left ? -1 : 1, oy = top ? -1 : 1;
      int64_t oppx = left ? r.r : r.l, oppy = top ? r.b : r.t;
      int teeth = (int)G::range(1, 7);
      int64_t e = 1 + G::range(0, std::min<int64_t>(std::min(W, H) - 2, 20));
      int64_t room = std::max<int64_t>(ext, 1);
      std::vector<int64_t> dk;
      int64_t d = e + 1 + G::range(0, 5);
      for (int k = 0; k < teeth; ++k) { dk.push_back(d); d += 1 + G::range(0, 6); }
      int64_t D = d + G::range(1, 10);
      if (D <= room) {
        for (int k = 0; k < teeth; ++k) { p.emplace_back(cx + ox * dk[k], cy - oy * e); p.emplace_back(cx - ox * e, cy + oy * dk[k]); }
        p.emplace_back(oppx - ox * D, cy + oy * D);
        p.emplace_back(oppx - ox * D, oppy - oy * D);
        p.emplace_back(cx + ox * dk[0], oppy - oy * D);
        if (G::coin()) std::reverse(p.begin(), p.end());
        ST.count("accordion_enclosure_teeth_" + std::to_string(teeth));
      }
    }
    if (!p.empty()) {
    } else if (kind == 0) {            // entirely inside
      for (int v = 0; v < nv; ++v) p.emplace_back(G::range(r.l, r.r), G::range(r.t, r.b));
    } else if (kind == 1 && !open) {     // encloses the rectangle / winds around it several times
      int turns = (int)G::range(1, 3);
      for (int t = 0; t < turns; ++t) {
        int64_t d = 1 + G::range(0, ext - 1 > 0 ? ext - 1 : 0) / 2 + t;
        p.emplace_back(r.l - d, r.t - d); p.emplace_back(r.r + d, r.t - d); p.emplace_back(r.r + d, r.b + d); p.emplace_back(r.l - d, r.b + d);
      }
      if (G::coin()) std::reverse(p.begin(), p.end());
    } else if (kind == 7 && !open) {     // U-shaped frame hugging three sides of the rectangle from outside (edges ON the sides)
      int64_t a = 1 + G::range(0, 5), c2 = 1 + G::range(0, 5), d2 = 1 + G::range(0, 5);
      int64_t e1 = G::range(0, 3), e2 = G::range(0, 3), e3 = G::range(-2, 3), e4 = G::range(-2, 3);
      // open at the bottom side; then rotated / mirrored
      p = {Point64(r.l - a, r.b + e1), Point64(r.l - a, r.t - d2), Point64(r.r + c2, r.t - d2), Point64(r.r + c2, r.b + e2),
           Point64(r.r, r.b + e3), Point64(r.r, r.t), Point64(r.l, r.t), Point64(r.l, r.b + e4)};
      int rot = (int)G::range(0, 3);
      int64_t cx2 = r.l + r.r, cy2 = r.t + r.b;   // doubled centre
      if (rot && (r.r - r.l) == (r.b - r.t)) {      // rotations keep the rectangle only when it is a square: else mirror
        for (auto& q : p) for (int k2 = 0; k2 < rot; ++k2) { int64_t dx = 2 * q.x - cx2, dy = 2 * q.y - cy2; q = Point64((cx2 - dy) / 2, (cy2 + dx) / 2); }
      } else if (rot == 1) for (auto& q : p) q.y = r.t + r.b - q.y;     // open at the top instead
      if (G::coin()) std::reverse(p.begin(), p.end());
    } else if (kind == 2) {     // entirely outside (one side)
      for (int v = 0; v < nv; ++v) p.emplace_back(r.r + 1 + G::range(0, ext), G::range(r.t - ext, r.b + ext));
    } else {                    // generic: around and across
      for (int v = 0; v < nv; ++v) p.emplace_back(G::range(r.l - ext, r.r + ext), G::range(r.t - ext, r.b + ext));
    }
    for (auto& q : p) {
      if (!G::chance(snapPct)) continue;
      int s = (int)G::range(0, 7);
      if (s == 0) q.x = r.l; else if (s == 1) q.x = r.r; else if (s == 2) q.y = r.t; else if (s == 3) q.y = r.b;
      else if (s == 4) { q.x = G::coin() ? r.l : r.r; q.y = G::coin() ? r.t : r.b; }        // a corner
      else if (s == 5) { q.x = G::coin() ? r.l : r.r; q.y = G::range(r.t, r.b); }            // on a vertical side
      else { q.y = G::coin() ? r.t : r.b; q.x = G::range(r.l, r.r); }                        // on a horizontal side
    }
    pp.push_back(p);
  }
  c.p["paths"] = pp;
  ST.count("snap_pct_" + std::to_string(snapPct));
  if (G::chance(35)) { c.i["route"] = 1; c.i["dprec"] = G::range(0, 4); }
  return c;
}

bool inDomain(const R4& r, const Paths64& pp) {
  if (r.r <= r.l || r.b <= r.t) return false;
  int64_t lim = int64_t(1) << 40;
  if (std::abs(r.l) > lim || std::abs(r.r) > lim || std::abs(r.t) > lim || std::abs(r.b) > lim) return false;
  return O::maxAbs(pp) <= lim;
}

// Route to the operation (chosen per case): 0 the Rect64/Paths64 API; 1 the RectD/PathsD overloads at precision p, fed with
// the same input divided by 10^p and with the results multiplied back (so that the integer oracle applies unchanged).
struct DRoute {
  int route = 0, prec = 0;
  double sc = 1;
  explicit DRoute(const Case& c) { route = (int)c.I("route", 0); prec = (int)c.I("dprec", 0); sc = std::pow(10.0, prec); if (route) ST.count("route_RectD_precision_" + std::to_string(prec)); }
  PathD down(const Path64& p) const { PathD r; for (auto& q : p) r.emplace_back((double)q.x / sc, (double)q.y / sc); return r; }
  Paths64 up(const PathsD& pp) const { Paths64 r; for (auto& p : pp) { Path64 q; for (auto& pt : p) q.emplace_back((int64_t)std::llround(pt.x * sc), (int64_t)std::llround(pt.y * sc)); r.push_back(q); } return r; }
  RectD rd(const Rect64& r) const { return RectD((double)r.left / sc, (double)r.top / sc, (double)r.right / sc, (double)r.bottom / sc); }
  Paths64 clip(const Rect64& r, const Paths64& in, bool lines) const {
    if (!route) return lines ? RectClipLines(r, in) : RectClip(r, in);
    PathsD d; for (auto& p : in) d.push_back(down(p));
    return up(lines ? RectClipLines(rd(r), d, prec) : RectClip(rd(r), d, prec));
  }
  Paths64 clip(const Rect64& r, const Path64& in, bool lines) const {
    if (!route) return lines ? RectClipLines(r, in) : RectClip(r, in);
    return up(lines ? RectClipLines(rd(r), down(in), prec) : RectClip(rd(r), down(in), prec));
  }
};

#ifndef PROP_C09
// ---------------------------------------------------------------------------
// C08
// ---------------------------------------------------------------------------
bool isSimple(const Path64& p) {
  size_t n = p.size();
  if (n < 3) return false;
  for (size_t i = 0; i < n; ++i) if (p[i] == p[(i + 1) % n]) return false;
  for (size_t i = 0; i < n; ++i)
    for (size_t j = i + 1; j < n; ++j) {
      bool adj = j == i + 1 || (i == 0 && j == n - 1);
      const Point64 &a = p[i], &b = p[(i + 1) % n], &c = p[j], &d = p[(j + 1) % n];
      if (adj) {
        // adjacent edges share one vertex; they must not overlap (180-degree spike)
        const Point64& shared = (j == i + 1) ? b : a;
        const Point64& o1 = (j == i + 1) ? a : b;
        const Point64& o2 = (j == i + 1) ? d : c;
        if (O::cross(shared, o1, o2) == 0 && O::dot(shared, o1, o2) > 0) return false;
        continue;
      }
      if (O::segsTouch(a, b, c, d)) return false;
    }
  return O::area2(p) != 0;
}
bool edgeAlongSide(const Path64& p, const R4& r) {
  size_t n = p.size();
  for (size_t i = 0; i < n; ++i) {
    const Point64 &a = p[i], &b = p[(i + 1) % n];
    if (a.x == b.x && (a.x == r.l || a.x == r.r) && std::max(a.y, b.y) > r.t && std::min(a.y, b.y) < r.b && a.y != b.y) return true;
    if (a.y == b.y && (a.y == r.t || a.y == r.b) && std::max(a.x, b.x) > r.l && std::min(a.x, b.x) < r.r && a.x != b.x) return true;
  }
  return false;
}


Verdict judge(const Case& c) {
  Verdict v;
  R4 r = rectOf(c);
  const Paths64& paths = c.P("paths");
  if (!inDomain(r, paths) || paths.empty()) { v.discard = true; return v; }
  Rect64 rect(r.l, r.t, r.r, r.b);
  Path64 rp = {Point64(r.l, r.t), Point64(r.r, r.t), Point64(r.r, r.b), Point64(r.l, r.b)};
  DRoute dr(c);
  Paths64 batch = dr.clip(rect, paths, false);
  Paths64 concat;
  for (auto& path : paths) {
    Paths64 res = dr.clip(rect, path, false);
    v.evals++;
    concat.insert(concat.end(), res.begin(), res.end());
    if (path.size() < 3) { if (!res.empty()) { v.fail("a path with fewer than 3 points produced output"); return v; } continue; }
    std::string at = " [path starting " + O::ptStr(path[0]) + ", rect " + std::to_string(r.l) + "," + std::to_string(r.t) + "," + std::to_string(r.r) + "," + std::to_string(r.b) + "]";
    bool simple = isSimple(path), along = edgeAlongSide(path, r);
    Rect64 bb = GetBounds(path);
    // (iv) inside / outside shortcuts
    if (bb.left >= r.l && bb.right <= r.r && bb.top >= r.t && bb.bottom <= r.b) {
      if (res != Paths64{path}) { v.fail("a polygon entirely inside the rectangle is not returned unchanged" + at); return v; }
      ST.count("entirely_inside");
      continue;
    }
    if (bb.right < r.l || bb.left > r.r || bb.bottom < r.t || bb.top > r.b) {
      if (!res.empty()) { v.fail("a polygon entirely outside the rectangle did not vanish" + at); return v; }
      ST.count("entirely_outside");
      continue;
    }
    // (i) inside the rectangle within one unit; (vi) new vertices on the boundary within one unit
    for (auto& q : res)
      for (auto& pt : q) {
        if (pt.x < r.l - 1 || pt.x > r.r + 1 || pt.y < r.t - 1 || pt.y > r.b + 1) { v.fail("result vertex " + O::ptStr(pt) + " outside the rectangle" + at); return v; }
        if (std::find(path.begin(), path.end(), pt) == path.end()) {
          bool nearBoundary = std::abs(pt.x - r.l) <= 1 || std::abs(pt.x - r.r) <= 1 || std::abs(pt.y - r.t) <= 1 || std::abs(pt.y - r.b) <= 1;
          if (!nearBoundary) { v.fail("new vertex " + O::ptStr(pt) + " is not on the rectangle boundary" + at); return v; }
        }
      }
    // samples: faces of the arrangement of the path and the rectangle
    Paths64 both = {path, rp};
    std::vector<O::Seg> segs = O::segsOf(Paths64{path});
    O::Samples S = O::faceSamples(O::segsOf(both), 2.0L, 500);
    int crossings = 0;
    for (auto& s : segs) for (size_t k = 0; k < 4; ++k) if (O::segsTouch(s.a, s.b, rp[k], rp[(k + 1) % 4])) ++crossings;
    if (crossings >= 2) v.nontrivial = true;
    for (auto& pt : S.pts) {
      if (O::distToSegs(pt, segs) <= 2.0L) continue;
      O::Wn wr = O::winding(pt, res);
      bool strictlyInside = pt.x > r.l + 1 && pt.x < r.r - 1 && pt.y > r.t + 1 && pt.y < r.b - 1;
      bool clearlyOutside = pt.x < r.l - 1 || pt.x > r.r + 1 || pt.y < r.t - 1 || pt.y > r.b + 1;
      if (strictlyInside) {
        int wp = O::winding(pt, path).w;
        if (simple) {
          if (wr.w != wp || wr.on) { v.fail("inside the rectangle at " + O::ptStr(pt) + " the result winds " + std::to_string(wr.w) + " times, the simple input polygon " + std::to_string(wp) + at); return v; }
        } else if (!along) {
          if (((wr.w - wp) & 1) != 0) { v.fail("inside the rectangle at " + O::ptStr(pt) + " result winding " + std::to_string(wr.w) + " and input winding " + std::to_string(wp) + " differ in parity" + at); return v; }
        }
        ST.count("inside_samples");
      } else if (clearlyOutside) {
        if (wr.w != 0 || wr.on) { v.fail("outside the rectangle at " + O::ptStr(pt) + " the result covers the point" + at); return v; }
      }
    }
    // (v) orientation preserved for simple polygons
    if (simple && !res.empty()) {
      // orientation of the clipped polygon = sign of the total signed area of its result paths (RectClip may express
      // a notch as a larger path plus a negatively oriented piece; the net winding is what clause (ii) checks).
      // Results whose area is within the reach of one-unit vertex rounding (area <= perimeter) are not judged.
      i128 ap = O::area2(path), ar = 0;
      ld perim = 0;
      for (auto& q : res) {
        ar += O::area2(q);
        for (size_t k = 0; k < q.size(); ++k) perim += hypotl((ld)q[(k + 1) % q.size()].x - q[k].x, (ld)q[(k + 1) % q.size()].y - q[k].y);
      }
      if (fabsl((ld)ar) / 2 <= perim) ST.count("sliver_results_not_judged_for_orientation");
      else if ((ar > 0) != (ap > 0)) { v.fail("orientation not preserved" + at); return v; }
    }
    ST.count(simple ? "simple_polygons" : "nonsimple_polygons");
    if (along) ST.count("with_edge_along_a_side");
  }
  if (batch != concat) { v.fail("clipping several polygons in one call differs from clipping them one by one"); return v; }
  return v;
}
Case gen() { return genRc(false); }
const char* kProp = "C08";

#else
// ---------------------------------------------------------------------------
// C09
// ---------------------------------------------------------------------------
struct Piece { ld t0, t1; };  // parameter interval of one input segment inside the closed rectangle

// Liang-Barsky on exact integers -> long double parameters
bool clipSeg(const Point64& a, const Point64& b, const R4& r, ld& t0, ld& t1) {
  ld dx = (ld)b.x - a.x, dy = (ld)b.y - a.y;
  t0 = 0; t1 = 1;
  ld p[4] = {-dx, dx, -dy, dy};
  ld q[4] = {(ld)a.x - r.l, (ld)r.r - a.x, (ld)a.y - r.t, (ld)r.b - a.y};
  for (int k = 0; k < 4; ++k) {
    if (p[k] == 0) { if (q[k] < 0) return false; continue; }
    ld t = q[k] / p[k];
    if (p[k] < 0) { if (t > t1) return false; if (t > t0) t0 = t; }
    else { if (t < t0) return false; if (t < t1) t1 = t; }
  }
  return t0 <= t1;
}
bool alongSide(const Point64& a, const Point64& b, const R4& r) {
  if (a.x == b.x && (a.x == r.l || a.x == r.r)) return true;
  if (a.y == b.y && (a.y == r.t || a.y == r.b)) return true;
  return false;
}

Verdict judge(const Case& c) {
  Verdict v;
  R4 r = rectOf(c);
  const Paths64& paths = c.P("paths");
  if (!inDomain(r, paths) || paths.empty()) { v.discard = true; return v; }
  Rect64 rect(r.l, r.t, r.r, r.b);
  DRoute dr(c);
  Paths64 batch = dr.clip(rect, paths, true), concat;
  for (auto& line : paths) {
    Paths64 res = dr.clip(rect, line, true);
    v.evals++;
    concat.insert(concat.end(), res.begin(), res.end());
    if (line.size() < 2) continue;
    bool dup = false;
    for (size_t k = 0; k + 1 < line.size(); ++k) if (line[k] == line[k + 1]) dup = true;
    if (dup) { ST.count("skipped_duplicate_points"); continue; }
    std::string at = " [line starting " + O::ptStr(line[0]) + ", rect " + std::to_string(r.l) + "," + std::to_string(r.t) + "," + std::to_string(r.r) + "," + std::to_string(r.b) + "]";
    // reference
    ld insideLen = 0, optionalLen = 0;
    int crossings = 0;
    std::vector<ld> cum = {0};
    for (size_t k = 0; k + 1 < line.size(); ++k) cum.push_back(cum.back() + hypotl((ld)line[k + 1].x - line[k].x, (ld)line[k + 1].y - line[k].y));
    struct Mid { ld x, y; bool in; };
    std::vector<Mid> mids;
    for (size_t k = 0; k + 1 < line.size(); ++k) {
      const Point64 &a = line[k], &b = line[k + 1];
      ld len = cum[k + 1] - cum[k];
      if (alongSide(a, b, r)) { ld t0, t1; if (clipSeg(a, b, r, t0, t1)) optionalLen += (t1 - t0) * len; continue; }
      ld t0, t1;
      bool hit = clipSeg(a, b, r, t0, t1);
      auto addMid = [&](ld u0, ld u1, bool in) {
        if ((u1 - u0) * len <= 4.0L) return;
        ld tm = (u0 + u1) / 2;
        mids.push_back({(ld)a.x + tm * ((ld)b.x - a.x), (ld)a.y + tm * ((ld)b.y - a.y), in});
      };
      if (!hit) { addMid(0, 1, false); continue; }
      insideLen += (t1 - t0) * len;
      if (t0 > 0) { ++crossings; addMid(0, t0, false); }
      if (t1 < 1) { ++crossings; addMid(t1, 1, false); }
      addMid(t0, t1, true);
    }
    if (crossings >= 2) v.nontrivial = true;
    // (i) every result vertex inside the rectangle (1 unit) and on the polyline (1.5 units)
    std::vector<O::Seg> lsegs = O::segsOf(Paths64{line}, false);
    ld resLen = 0;
    ld lastParam = -1e30L;
    for (auto& piece : res) {
      if (piece.size() < 2) { ST.count("single_point_pieces"); }
      for (size_t k = 0; k < piece.size(); ++k) {
        const Point64& pt = piece[k];
        if (pt.x < r.l - 1 || pt.x > r.r + 1 || pt.y < r.t - 1 || pt.y > r.b + 1) { v.fail("result vertex " + O::ptStr(pt) + " outside the rectangle" + at); return v; }
        if (O::distToSegs(pt, lsegs) > 1.5L) { v.fail("result vertex " + O::ptStr(pt) + " is not on the input polyline" + at); return v; }
        if (k + 1 < piece.size()) resLen += hypotl((ld)piece[k + 1].x - pt.x, (ld)piece[k + 1].y - pt.y);
        // (ii) order and direction: arc-length parameter of the nearest point on the polyline must not decrease.
        // Among all near (<= 1.5) positions take the smallest parameter that is >= lastParam - 2 (self-crossing lines).
        ld best = 1e30L;
        for (size_t s = 0; s < lsegs.size(); ++s) {
          const O::Seg& sg = lsegs[s];
          if (O::distPtSeg(pt, sg.a, sg.b) > 1.5L) continue;
          ld dx = (ld)sg.b.x - sg.a.x, dy = (ld)sg.b.y - sg.a.y, len = hypotl(dx, dy);
          ld t = (((ld)pt.x - sg.a.x) * dx + ((ld)pt.y - sg.a.y) * dy) / (len * len);
          t = std::max<ld>(0, std::min<ld>(1, t));
          // the whole sub-range of this segment within 1.5 units of pt is acceptable: take its far end
          ld param = cum[s] + t * len;
          ld slack = 2.0L;
          if (param + slack >= lastParam) best = std::min(best, std::max(param, lastParam - slack));
        }
        if (best > 1e29L) { v.fail("result pieces are not in input order/direction at vertex " + O::ptStr(pt) + at); return v; }
        lastParam = best;
      }
    }
    // (iii) length
    ld tol = 2.0L * crossings + optionalLen + 0.5L;
    if (resLen < insideLen - tol || resLen > insideLen + tol) {
      char buf[200];
      snprintf(buf, sizeof buf, "total result length %.3Lf, exact inside length %.3Lf (+%.3Lf optional along a side), tolerance %.3Lf", resLen, insideLen, optionalLen, tol);
      v.fail(buf + at);
      return v;
    }
    // (iv) coverage both ways at interval midpoints
    std::vector<O::Seg> rsegs = O::segsOf(res, false);
    for (auto& m : mids) {
      ld d = rsegs.empty() ? 1e30L : O::distToSegs(m.x, m.y, rsegs);
      if (m.in && d > 1.5L) { char b2[100]; snprintf(b2, sizeof b2, "(%.2Lf,%.2Lf)", m.x, m.y); v.fail(std::string("inside point ") + b2 + " of the polyline is missing from the result" + at); return v; }
      if (!m.in) {
        // result vertices may lie up to 1 unit outside the rectangle: only points more than 3 units outside are unambiguous
        bool farOut = m.x < r.l - 3 || m.x > r.r + 3 || m.y < r.t - 3 || m.y > r.b + 3;
        if (farOut && d <= 1.5L) { char b2[100]; snprintf(b2, sizeof b2, "(%.2Lf,%.2Lf)", m.x, m.y); v.fail(std::string("outside point ") + b2 + " of the polyline is in the result" + at); return v; }
      }
    }
    ST.count("crossings", crossings);
  }
  if (batch != concat) { v.fail("clipping several polylines in one call differs from clipping them one by one"); return v; }
  return v;
}
Case gen() { return genRc(true); }
const char* kProp = "C09";
#endif

}  // namespace

int main(int argc, char** argv) {
  Harness H;
  H.property = kProp;
  H.parts.push_back({"rc", gen, judge, nullptr, true});
  return harnessMain(argc, argv, H);
}
