// C02 — axis-parallel inputs are clipped exactly, whatever their degeneracy.
#include "gen.hpp"

namespace {

// winding number of the centre of cell [xs[i],xs[i+1]] x [ys[j],ys[j+1]] with
// respect to rectilinear closed paths: ray towards +x, only comparisons.
// Returns false in *ok if a path is not rectilinear.
int cellWinding(const Paths64& paths, int64_t xlo, int64_t ylo, int64_t yhi) {
  int w = 0;
  for (auto& p : paths) {
    size_t n = p.size();
    for (size_t k = 0; k < n; ++k) {
      const Point64& a = p[k];
      const Point64& b = p[(k + 1) % n];
      if (a.x != b.x) continue;      // horizontal (or not vertical): does not cross a horizontal ray
      if (a.x <= xlo) continue;      // left of the centre
      int64_t lo = std::min(a.y, b.y), hi = std::max(a.y, b.y);
      if (lo <= ylo && hi >= yhi) w += (b.y > a.y) ? 1 : -1;
    }
  }
  return w;
}

bool rectilinear(const Paths64& paths) {
  for (auto& p : paths) {
    size_t n = p.size();
    for (size_t k = 0; k < n; ++k) {
      const Point64& a = p[k];
      const Point64& b = p[(k + 1) % n];
      if (a.x != b.x && a.y != b.y) return false;
    }
  }
  return true;
}

// non-trivial: two distinct input edges collinear and overlapping in more than
// a point, or a vertex coinciding with a non-adjacent vertex / vertex of another path
bool degenerate(const Paths64& all) {
  std::vector<O::Seg> segs = O::segsOf(all);
  for (size_t i = 0; i < segs.size(); ++i)
    for (size_t j = i + 1; j < segs.size(); ++j) {
      const O::Seg &s = segs[i], &t = segs[j];
      if (s.a == s.b || t.a == t.b) return true;  // repeated point
      bool sh = s.a.y == s.b.y, th = t.a.y == t.b.y;
      if (sh != th) continue;
      if (sh) {
        if (s.a.y != t.a.y) continue;
        int64_t lo = std::max(std::min(s.a.x, s.b.x), std::min(t.a.x, t.b.x));
        int64_t hi = std::min(std::max(s.a.x, s.b.x), std::max(t.a.x, t.b.x));
        if (lo < hi) return true;
      } else {
        if (s.a.x != t.a.x) continue;
        int64_t lo = std::max(std::min(s.a.y, s.b.y), std::min(t.a.y, t.b.y));
        int64_t hi = std::min(std::max(s.a.y, s.b.y), std::max(t.a.y, t.b.y));
        if (lo < hi) return true;
      }
    }
  std::vector<Point64> v;
  for (auto& p : all) for (auto& q : p) v.push_back(q);
  std::sort(v.begin(), v.end(), O::ptLess);
  for (size_t k = 0; k + 1 < v.size(); ++k) if (v[k] == v[k + 1]) return true;
  return false;
}

Verdict judge(const Case& c) {
  Verdict v;
  const Paths64& subj = c.P("subj");
  const Paths64& clip = c.P("clip");
  if (!rectilinear(subj) || !rectilinear(clip)) { v.discard = true; return v; }
  std::vector<int64_t> xs, ys;
  for (auto* pp : {&subj, &clip})
    for (auto& p : *pp) for (auto& q : p) { xs.push_back(q.x); ys.push_back(q.y); }
  if (xs.empty()) { v.discard = true; return v; }
  std::sort(xs.begin(), xs.end()); xs.erase(std::unique(xs.begin(), xs.end()), xs.end());
  std::sort(ys.begin(), ys.end()); ys.erase(std::unique(ys.begin(), ys.end()), ys.end());
  if (xs.back() > (int64_t(1) << 60) || xs.front() < -(int64_t(1) << 60) ||
      ys.back() > (int64_t(1) << 60) || ys.front() < -(int64_t(1) << 60)) { v.discard = true; return v; }
  size_t nx = xs.size() > 0 ? xs.size() - 1 : 0, ny = ys.size() > 0 ? ys.size() - 1 : 0;
  // input winding per cell
  std::vector<int> ws(nx * ny), wc(nx * ny);
  for (size_t i = 0; i < nx; ++i)
    for (size_t j = 0; j < ny; ++j) {
      ws[i * ny + j] = cellWinding(subj, xs[i], ys[j], ys[j + 1]);
      wc[i * ny + j] = cellWinding(clip, xs[i], ys[j], ys[j + 1]);
    }
  Paths64 all = subj;
  all.insert(all.end(), clip.begin(), clip.end());
  v.nontrivial = degenerate(all);

  int route = (int)c.I("route", 0);
  bool rev = c.I("rev", 0) != 0;   // ReverseSolution: every selected cell is then covered -1 times
  if (rev) ST.count("reverse_solution");
  ST.count("route_" + std::to_string(route));
  static const ClipType cts[] = {ClipType::Intersection, ClipType::Union, ClipType::Difference, ClipType::Xor};
  static const FillRule frs[] = {FillRule::EvenOdd, FillRule::NonZero, FillRule::Positive, FillRule::Negative};
  for (ClipType ct : cts)
    for (FillRule fr : frs)
      for (int pc = 0; pc < 2; ++pc) {
        // route (per case): 0 Execute into Paths64, 1 Execute into a PolyTree64 (flattened), 2 the free function BooleanOp
        // (default options, i.e. only when PreserveCollinear is on)
        Paths64 sol;
        bool ok = true;
        if (route == 2 && pc != 0 && !rev) sol = BooleanOp(ct, fr, subj, clip);
        else {
          Clipper64 cl;
          cl.PreserveCollinear(pc != 0);
          cl.ReverseSolution(rev);
          cl.AddSubject(subj);
          cl.AddClip(clip);
          if (route == 1) { PolyTree64 t; ok = cl.Execute(ct, fr, t); sol = PolyTreeToPaths64(t); }
          else ok = cl.Execute(ct, fr, sol);
        }
        v.evals++;
        std::string cfg = std::string(" [") + O::ctName(ct) + "," + O::frName(fr) + ",pc=" + std::to_string(pc) + (rev ? ",rev=1" : "") + "]";
        if (!ok) { v.fail("Execute returned false" + cfg); return v; }
        // (iv) every solution edge axis-parallel, (iii) coordinates from the input sets
        if (!rectilinear(sol)) { v.fail("solution edge not axis-parallel" + cfg); return v; }
        for (auto& p : sol)
          for (auto& q : p) {
            if (!std::binary_search(xs.begin(), xs.end(), q.x) || !std::binary_search(ys.begin(), ys.end(), q.y)) {
              v.fail("solution vertex " + O::ptStr(q) + " has a coordinate that no input vertex has" + cfg);
              return v;
            }
          }
        // (i) cover per cell, (ii) exact area
        i128 expectArea = 0;
        for (size_t i = 0; i < nx; ++i)
          for (size_t j = 0; j < ny; ++j) {
            bool sel = O::op(ct, O::filled(fr, ws[i * ny + j]), O::filled(fr, wc[i * ny + j]));
            int cov = cellWinding(sol, xs[i], ys[j], ys[j + 1]);
            if (cov != (sel ? (rev ? -1 : 1) : 0)) {
              v.fail("cell [" + std::to_string(xs[i]) + "," + std::to_string(xs[i + 1]) + "]x[" +
                     std::to_string(ys[j]) + "," + std::to_string(ys[j + 1]) + "] covered " + std::to_string(cov) +
                     " times, expected " + std::to_string(sel ? (rev ? -1 : 1) : 0) + cfg);
              return v;
            }
            if (sel) expectArea += ((i128)xs[i + 1] - xs[i]) * ((i128)ys[j + 1] - ys[j]);
          }
        if (O::area2(sol) != (rev ? -2 : 2) * expectArea) { v.fail("solution area differs from the exact area" + cfg); return v; }
      }
  if (v.nontrivial) ST.count("nontrivial_degenerate_input");
  ST.count("cells", nx * ny);
  return v;
}

Case genRandom() {
  GEN::Lattice L = GEN::lattice();
  Case c;
  c.p["subj"] = GEN::rectPaths(L, 1, 3);
  c.p["clip"] = GEN::rectPaths(L, 0, 3);
  c.i["route"] = G::chance(60) ? 0 : G::range(1, 2);
  c.i["rev"] = G::chance(20);
  ST.count(std::string("step_") + (L.step >= (int64_t(1) << 40) ? "huge" : L.step >= 1000 ? "large" : "small"));
  return c;
}

// exhaustive scope: all ordered pairs of the rectangles of a 4x4 cell grid
// (10 x-intervals x 10 y-intervals = 100 rectangles), both orientations
void enumeratePairsN(int N, const std::function<void(const Case&)>& f) {
  Paths64 rects;
  for (int x0 = 0; x0 <= N; ++x0) for (int x1 = x0 + 1; x1 <= N; ++x1)
    for (int y0 = 0; y0 <= N; ++y0) for (int y1 = y0 + 1; y1 <= N; ++y1) {
      Path64 p = {Point64(x0, y0), Point64(x1, y0), Point64(x1, y1), Point64(x0, y1)};
      rects.push_back(p);
      std::reverse(p.begin(), p.end());
      rects.push_back(p);
    }
  for (auto& a : rects)
    for (auto& b : rects) {
      Case c;
      c.p["subj"] = {a};
      c.p["clip"] = {b};
      f(c);
    }
}

void enumeratePairs(const std::function<void(const Case&)>& f) { enumeratePairsN(4, f); }
void enumeratePairs5(const std::function<void(const Case&)>& f) { enumeratePairsN(5, f); }

}  // namespace

int main(int argc, char** argv) {
  Harness H;
  H.property = "C02";
  H.parts.push_back({"random", genRandom, judge, nullptr, true});
  H.parts.push_back({"pairs4x4", nullptr, judge, enumeratePairs, false});
  H.parts.push_back({"pairs5x5", nullptr, judge, enumeratePairs5, false});
  return harnessMain(argc, argv, H);
}
