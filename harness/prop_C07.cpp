// C07 — open-path offsetting produces the stroke of the requested width and caps.
#include "offset_oracle.hpp"

namespace {

const JoinType JTS[] = {JoinType::Square, JoinType::Bevel, JoinType::Round, JoinType::Miter};
const EndType ETS[] = {EndType::Joined, EndType::Butt, EndType::Square, EndType::Round};

struct PSeg { Point64 a, b; int path; bool firstOfOpen, lastOfOpen; };

struct Geo {
  std::vector<PSeg> segs;
  std::vector<Point64> singles;       // 1-point paths
  std::vector<Point64> joints;        // interior vertices (all vertices for Joined)
  std::vector<std::pair<Point64, PointD>> ends;  // open end points with outward unit direction
  std::vector<size_t> endSeg;         // index (into segs) of the segment each end belongs to
};

Geo build(const Paths64& paths, bool joined) {
  Geo g;
  for (size_t pi = 0; pi < paths.size(); ++pi) {
    Path64 p = paths[pi];
    // the library strips duplicate points first
    p.erase(std::unique(p.begin(), p.end()), p.end());
    if (joined && p.size() > 1 && p.front() == p.back()) p.pop_back();
    if (p.empty()) continue;
    if (p.size() == 1) { g.singles.push_back(p[0]); continue; }
    bool closed = joined && p.size() >= 3;   // a 2-point "joined" path is stroked as an open path with round/square ends
    size_t n = p.size(), m = closed ? n : n - 1;
    size_t firstSeg = g.segs.size();
    for (size_t k = 0; k < m; ++k) g.segs.push_back({p[k], p[(k + 1) % n], (int)pi, !closed && k == 0, !closed && k == m - 1});
    for (size_t k = 0; k < n; ++k) if (closed || (k > 0 && k < n - 1)) g.joints.push_back(p[k]);
    if (!closed) {
      auto dir = [](const Point64& from, const Point64& to) { double dx = (double)(to.x - from.x), dy = (double)(to.y - from.y), l = std::hypot(dx, dy); return PointD(dx / l, dy / l); };
      g.ends.push_back({p[0], dir(p[1], p[0])});
      g.endSeg.push_back(firstSeg);
      g.ends.push_back({p[n - 1], dir(p[n - 2], p[n - 1])});
      g.endSeg.push_back(g.segs.size() - 1);
    }
  }
  return g;
}

ld distTo(const Geo& g, const Point64& p) {
  ld best = 1e300L;
  for (auto& s : g.segs) best = std::min(best, O::distPtSeg(p, s.a, s.b));
  for (auto& q : g.singles) best = std::min(best, hypotl((ld)p.x - q.x, (ld)p.y - q.y));
  return best;
}

// effective end type of a path in the group: 2-point paths of a Joined group get Round (round joins) or Square caps
EndType effectiveEnd(EndType et, JoinType jt) {
  if (et == EndType::Joined) return jt == JoinType::Round ? EndType::Round : EndType::Square;
  return et;
}

// +1 must be covered, 0 must not be covered, -1 not judged
int expect(const Geo& g, const Point64& p, double ad, JoinType jt, EndType et, double ml, double at, double extraTol = 0) {
  ld tol = OFS::tolOf(at, ad) + extraTol;
  ld d = distTo(g, p);
  EndType eet = effectiveEnd(et, jt);
  ld f = std::max<ld>(OFS::joinFactor(jt, ml), eet == EndType::Square ? sqrtl(2.0L) : 1.0L);
  if (!g.singles.empty() && jt != JoinType::Round) f = std::max<ld>(f, sqrtl(2.0L) * (std::ceil(ad) / ad));
  // ---- outer bound ----
  if (d >= ad * f + tol) return 0;
  if (eet == EndType::Butt) {
    // beyond a flat end: not covered unless another segment is near
    for (size_t ei = 0; ei < g.ends.size(); ++ei) {
      auto& e = g.ends[ei];
      ld along = ((ld)p.x - e.first.x) * e.second.x + ((ld)p.y - e.first.y) * e.second.y;
      if (along <= tol) continue;
      // distance to everything except the end segment this end belongs to (identified by index: a polyline drawn back
      // to its start has both ends at one point, and each end's own segment is a different one)
      ld other = 1e300L;
      for (size_t si = 0; si < g.segs.size(); ++si) {
        auto& s = g.segs[si];
        bool own = si == g.endSeg[ei];
        if (own) {
          // the own segment still covers the strip before the end line; p is beyond the line, so only its
          // other end's join could reach p: use the distance to the far part (the segment shortened by nothing)
          continue;
        }
        other = std::min(other, O::distPtSeg(p, s.a, s.b));
      }
      for (auto& q : g.singles) other = std::min(other, hypotl((ld)p.x - q.x, (ld)p.y - q.y));
      if (other >= ad * f + tol) return 0;
    }
  }
  // ---- inner bound ----
  ld w = ad - tol;
  if (w <= 0) return -1;
  if (jt == JoinType::Round && eet == EndType::Round && g.singles.empty() ? d <= w : false) return 1;
  for (auto& s : g.segs) {
    ld dx = (ld)s.b.x - s.a.x, dy = (ld)s.b.y - s.a.y, len = hypotl(dx, dy);
    ld px = (ld)p.x - s.a.x, py = (ld)p.y - s.a.y;
    ld t = (px * dx + py * dy) / len, perp = fabsl(dx * py - dy * px) / len;
    if (perp <= w && t >= tol && t <= len - tol) return 1;
  }
  // round joins fill the disc around an interior vertex - but butt ends cut the stroke flat, so a disc is only
  // claimed on the near side of every flat end line
  bool beyondButt = false;
  if (eet == EndType::Butt)
    for (auto& e : g.ends) if (((ld)p.x - e.first.x) * e.second.x + ((ld)p.y - e.first.y) * e.second.y > -tol) beyondButt = true;
  if (jt == JoinType::Round && !beyondButt) for (auto& q : g.joints) if (hypotl((ld)p.x - q.x, (ld)p.y - q.y) <= w) return 1;
  for (auto& e : g.ends) {
    ld ex = (ld)p.x - e.first.x, ey = (ld)p.y - e.first.y;
    // a round cap is the half disc on the outward side of the end line (behind it the join type decides)
    if (eet == EndType::Round && hypotl(ex, ey) <= w && ex * e.second.x + ey * e.second.y >= 0) return 1;
    if (eet == EndType::Square) {
      ld along = ex * e.second.x + ey * e.second.y, perp = fabsl(ex * e.second.y - ey * e.second.x);
      if (along >= 0 && along <= w && perp <= w) return 1;   // (claimed only beyond the end line: behind it the path may already have turned)
    }
  }
  if (ad >= 1.0) for (auto& q : g.singles) {   // single points are dropped by design for |delta| < 1
    ld ex = fabsl((ld)p.x - q.x), ey = fabsl((ld)p.y - q.y);
    if (jt == JoinType::Round) { if (hypotl(ex, ey) <= w) return 1; }
    else if (ex <= std::ceil(ad) - 1.0 && ey <= std::ceil(ad) - 1.0) return 1;
  }
  return -1;
}

// route by which the offset is obtained (chosen per case): 0 Execute(delta, Paths64&) on a fresh object, 1 Execute into a
// PolyTree64 (flattened), 2 one object executed into a tree first and into paths afterwards, 3 the InflatePaths function,
// 4 with a distant decoy group added first
int g_route = 0;
Paths64 offset(const Paths64& paths, double delta, JoinType jt, EndType et, double ml, double at, bool rev) {
  if (g_route == 3 && !rev) return InflatePaths(paths, delta, jt, et, ml, at);
  ClipperOffset co(ml, at, false, rev);
  if (g_route == 4) {
    // a distant decoy group (round-joined, positively oriented square) is added BEFORE the paths under test; the result
    // near the paths must not depend on it.  The decoy's own offset is dropped from the result by position.
    Rect64 bb = GetBounds(paths);
    double ad = std::fabs(delta), reach = ad * std::max(ml, 2.0) * 4 + 100;
    int64_t S = (int64_t)std::max(200.0, 6 * ad), x0 = bb.right + (int64_t)(4 * reach) + 4 * S;
    if (x0 + S < (int64_t(1) << 41)) {
      Path64 sq = {Point64(x0, bb.top), Point64(x0 + S, bb.top), Point64(x0 + S, bb.top + S), Point64(x0, bb.top + S)};
      // (a negatively oriented decoy would switch the clean-up union to the Negative fill rule and discard the open
      // paths' offsets altogether: that is the listed finding KF-C12-c, not what this route is after)
      co.AddPath(sq, JoinType::Round, EndType::Polygon);
      co.AddPaths(paths, jt, et);
      Paths64 all, sol;
      co.Execute(delta, all);
      int64_t cut = bb.right + (x0 - bb.right) / 2;
      for (auto& p : all) if (GetBounds(p).left < cut) sol.push_back(p);
      return sol;
    }
  }
  co.AddPaths(paths, jt, et);
  Paths64 sol;
  if (g_route == 1 || g_route == 2) {
    PolyTree64 tree;
    co.Execute(delta, tree);
    if (g_route == 1) return PolyTreeToPaths64(tree);
  }
  co.Execute(delta, sol);
  return sol;
}

bool domainOk(const Paths64& paths) {
  for (auto& p : paths) {
    if (p.empty()) return false;
    if (p.size() >= 2 && !OFS::validSimple(Paths64{p}, 10.0, false)) return false;
  }
  return true;
}

Verdict judge(const Case& c) {
  Verdict v;
  g_route = (int)c.I("route", 0);
  ST.count("route_" + std::to_string(g_route));
  const Paths64& paths = c.P("paths");
  if (paths.empty() || c.P("samples").empty() || !domainOk(paths) || O::maxAbs(paths) > (int64_t(1) << 40)) { v.discard = true; return v; }
  double ad = std::fabs(c.D("delta")), ml = c.D("ml", 2.0), at = c.D("at", 0.0);
  if (ad < 1.0) { v.discard = true; return v; }
  // KF-C07-b: thin strokes are excluded by construction (counted)
  if (ad < 2.5) { v.known = "KF-C07-b"; ST.count("excluded_thin_stroke"); return v; }
  bool rev = c.I("rev") != 0;
  int sign = rev ? -1 : 1;
  const Path64& pts = c.P("samples")[0];
  Paths64 reversed = paths;
  for (auto& p : reversed) std::reverse(p.begin(), p.end());
  bool has2 = false, has3 = false, selfx = false;
  for (auto& p : paths) { if (p.size() == 2) has2 = true; if (p.size() >= 3) has3 = true; }
  {
    std::vector<O::Seg> ss = O::segsOf(paths, false);
    for (size_t i = 0; i < ss.size() && !selfx; ++i) for (size_t j = i + 1; j < ss.size(); ++j) if (O::properCross(ss[i].a, ss[i].b, ss[j].a, ss[j].b)) { selfx = true; break; }
  }
  for (JoinType jt : JTS)
    for (EndType et : ETS) {
      // joined ends treat a path as closed: closing edges must respect the angle condition as well
      // the model of a Joined path that is drawn back to its start (last vertex == first) is the cycle without the repeat
      Paths64 modelPaths = paths;
      if (et == EndType::Joined) for (auto& p : modelPaths) if (p.size() >= 4 && p.front() == p.back()) p.pop_back();
      if (et == EndType::Joined) {
        bool ok = true;
        for (auto& p : modelPaths) if (p.size() >= 3 && !OFS::validSimple(Paths64{p}, 10.0, true)) ok = false;
        if (!ok) { ST.count("joined_skipped_closing_angle"); continue; }
      }
      Geo g = build(modelPaths, et == EndType::Joined);
      Paths64 solP = offset(paths, ad, jt, et, ml, at, rev);
      Paths64 solN = offset(paths, -ad, jt, et, ml, at, rev);
      Paths64 solR = offset(reversed, ad, jt, et, ml, at, rev);
      v.evals += 3;
      std::string cfg = std::string(" [|delta|=") + std::to_string(ad) + "," + OFS::jtName(jt) + "," + OFS::etName(et) + ",miter_limit=" + std::to_string(ml) + ",arc_tol=" + std::to_string(at) + ",rev=" + std::to_string((int)rev) + "]";
      // with a decoy group in the call (route 4) the decoy's own offset differs between +delta and -delta, and with it the
      // scanbeams of the clean-up union: identity is then not implied, and both results are judged against the model instead
      if (g_route != 4 && O::canon(solP) != O::canon(solN)) { v.fail("results for +delta and -delta differ" + cfg); return v; }
      std::vector<O::Seg> rsegs = O::segsOf(solP), rsegs2 = O::segsOf(solR);
      for (int side = 0; side < (g_route == 4 ? 2 : 1); ++side) {
        const Paths64& S = side ? solN : solP;
        double sgn = side ? -1.0 : 1.0;
        std::string cfgS = side ? cfg + " (executed with -delta)" : cfg;
        for (auto& p : pts) {
          O::Wn w = O::winding(p, S);
          // (ii) region independent of path direction (outside 2.5 units of either result boundary)
          if (side == 0 && O::distToSegs(p, rsegs) > 2.5L && O::distToSegs(p, rsegs2) > 2.5L) {
            O::Wn w2 = O::winding(p, solR);
            if (w2.w != w.w) { v.fail("region depends on path direction at " + O::ptStr(p) + cfg); return v; }
          }
          int e = expect(g, p, ad, jt, et, ml, at);
          if (e < 0) { ST.count("samples_in_band"); continue; }
          int want = e ? sign : 0;
          if (w.w == want && !w.on) continue;
          bool persists = !OFS::isolatedInDelta(ad, 0.55, [&](double d2) {
            int e2 = expect(g, p, d2, jt, et, ml, at);
            if (e2 < 0) return -1;
            O::Wn w2 = O::winding(p, offset(paths, sgn * d2, jt, et, ml, at, rev));
            return (w2.w != (e2 ? sign : 0) || w2.on) ? 1 : 0;
          });
          if (!persists) { v.known = "KF-ENG-a"; ST.count("mismatch_vanishing_under_delta_perturbation"); continue; }
          char buf[120];
          snprintf(buf, sizeof buf, " at distance %.3Lf from the paths", distTo(g, p));
          v.fail("sample " + O::ptStr(p) + buf + ": solution winding " + std::to_string(w.w) + (w.on ? " (on boundary)" : "") + ", expected " + std::to_string(want) + cfgS);
          return v;
        }
      }
    }
  v.nontrivial = (has2 && has3) || selfx;
  if (has2 && has3) ST.count("mixture_2point_and_longer");
  if (selfx) ST.count("self_crossing");
  ST.count("paths_per_case_" + std::to_string(paths.size()));
  return v;
}

Case gen() {
  Case c;
  double R = G::oneOf(std::vector<double>{100, 1000, 1000, 1e5});
  double ad = G::chance(5) ? G::real(1.0, 2.5) : G::chance(50) ? G::real(2.5, 8.0) : G::real(8.0, 0.4 * R);
  c.d["delta"] = ad;
  c.d["ml"] = G::chance(20) ? G::real(0.0, 1.0) : G::real(1.0, 5.0);
  c.d["at"] = G::coin() ? 0.0 : G::real(0.05, 3.0);
  c.i["rev"] = G::range(0, 1);
  c.i["route"] = G::chance(40) ? 0 : G::range(1, 4);
  double kf = std::max(c.d["ml"], std::sqrt(2.0));
  int n = (int)G::range(1, 4);
  Paths64 paths;
  for (int k = 0; k < n; ++k) {
    // disjoint regions farther apart than 2(|delta| f + tol)
    int64_t cx = (int64_t)(k * (2.6 * R + 2 * (ad * kf + 10)));
    int kind = (int)G::range(0, 5);
    if (kind == 0) paths.push_back(GEN::randomPath(1, 1, (int64_t)R, cx, 0));
    else if (kind == 1) paths.push_back(GEN::randomPath(2, 2, (int64_t)R, cx, 0));
    else {
      Path64 p = GEN::randomPath(3, 8, (int64_t)R, cx, 0);
      if (G::chance(12)) GEN::axisAlignSome(p, 60);                      // exactly horizontal / vertical segments, 90-degree turns
      if (G::chance(8)) { p.push_back(p[0]); ST.count("polyline_drawn_back_to_its_start"); }   // last vertex == first
      paths.push_back(p);
    }
  }
  if (G::chance(1)) {
    // large: one polyline of 80-250 vertices along a ring (strokes with hundreds of vertices: size-dependent behaviour)
    ad = G::real(8.0, 300.0);
    c.d["delta"] = ad;
    paths = {GEN::ring((int)G::range(80, 250), G::sym(1000), G::sym(1000), 0.995 * 1e5, 1e5, G::coin())};
    ST.count("large_polyline_80_to_250_vertices");
  }
  c.p["paths"] = paths;
  c.p["samples"] = {OFS::samplePoints(paths, false, ad, kf, OFS::tolOf(c.d["at"], ad), 10)};
  return c;
}

// single points become circles or squares of radius |delta| (exact clause)
Verdict judgePoint(const Case& c) {
  Verdict v;
  Point64 pt(c.I("x"), c.I("y"));
  double ad = std::fabs(c.D("delta")), at = c.D("at", 0.0);
  if (ad < 1.0) { v.discard = true; return v; }
  for (JoinType jt : JTS)
    for (EndType et : {EndType::Polygon, EndType::Joined, EndType::Butt, EndType::Square, EndType::Round}) {
      Paths64 sol = offset(Paths64{Path64{pt}}, ad, jt, et, 2.0, at, false);
      v.evals++;
      std::string cfg = std::string(" [delta=") + std::to_string(ad) + "," + OFS::jtName(jt) + "," + OFS::etName(et) + "]";
      {
        // a disc/square smaller than the tolerance band may legitimately round away
        ld tolp = OFS::tolOf(at, ad);
        if (sol.empty() && ad - tolp <= 1.0) { ST.count("tiny_point_offset_rounded_away"); continue; }
      }
      if (sol.size() != 1) { v.fail("a single point did not become one closed path" + cfg); return v; }
      if (jt == JoinType::Round) {
        ld tol = OFS::tolOf(at, ad);
        for (auto& q : sol[0]) { ld r = hypotl((ld)q.x - pt.x, (ld)q.y - pt.y); if (fabsl(r - ad) > tol) { v.fail("circle vertex " + O::ptStr(q) + " not at distance |delta|" + cfg); return v; } }
      } else {
        int64_t d = (int64_t)std::ceil(ad);
        Paths64 want = {{Point64(pt.x - d, pt.y - d), Point64(pt.x + d, pt.y - d), Point64(pt.x + d, pt.y + d), Point64(pt.x - d, pt.y + d)}};
        if (O::canon(sol) != O::canon(want)) { v.fail("single point is not the axis-aligned square of half-side ceil(|delta|)" + cfg); return v; }
      }
    }
  v.nontrivial = true;
  return v;
}
Case genPoint() {
  Case c;
  int64_t M = G::oneOf(std::vector<int64_t>{100, 100000, int64_t(1) << 38});
  c.i["x"] = G::sym(M); c.i["y"] = G::sym(M);
  c.d["delta"] = G::real(1.0, 500.0);
  c.d["at"] = G::coin() ? 0.0 : G::real(0.05, 3.0);
  return c;
}

}  // namespace

int main(int argc, char** argv) {
  Harness H;
  H.property = "C07";
  H.parts.push_back({"stroke", gen, judge, nullptr, true});
  H.parts.push_back({"point", genPoint, judgePoint, nullptr, true});
  return harnessMain(argc, argv, H);
}
