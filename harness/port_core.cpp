// The portable 64x64 -> 128 multiplication branches of clipper.core.h, which the
// preprocessor hides on 64-bit GCC/Clang.  All std headers are included first,
// then UINTPTR_MAX is redefined to a 32-bit value so that the `#if ... UINTPTR_MAX
// >= UINT64_MAX` tests in the header choose the portable code; the library
// namespace is renamed so the symbols cannot collide with the native build.
#include <algorithm>
#include <climits>
#include <cmath>
#include <cstdint>
#include <cstdlib>
#include <functional>
#include <iostream>
#include <limits>
#include <numeric>
#include <optional>
#include <string>
#include <type_traits>
#include <vector>
#undef UINTPTR_MAX
#define UINTPTR_MAX 0xFFFFFFFFu
#define Clipper2Lib C2PORT
#include "clipper2/clipper.core.h"

namespace port {
void multiply(uint64_t a, uint64_t b, uint64_t& lo, uint64_t& hi) { auto r = C2PORT::Multiply(a, b); lo = r.lo; hi = r.hi; }
bool productsAreEqual(int64_t a, int64_t b, int64_t c, int64_t d) { return C2PORT::ProductsAreEqual(a, b, c, d); }
int crossProductSign(int64_t x1, int64_t y1, int64_t x2, int64_t y2, int64_t x3, int64_t y3) {
  return C2PORT::CrossProductSign(C2PORT::Point64(x1, y1), C2PORT::Point64(x2, y2), C2PORT::Point64(x3, y3));
}
bool isCollinear(int64_t x1, int64_t y1, int64_t x2, int64_t y2, int64_t x3, int64_t y3) {
  return C2PORT::IsCollinear(C2PORT::Point64(x1, y1), C2PORT::Point64(x2, y2), C2PORT::Point64(x3, y3));
}
}  // namespace port
