// Shared generators (DESIGN.md section 3).  All randomness via G:: (rapidcheck).
#pragma once
#include "common.hpp"
#include "oracle.hpp"

namespace GEN {

// ---------------------------------------------------------------------------
// G-rect: closed rectilinear walks and rectangles on a lattice
// ---------------------------------------------------------------------------
struct Lattice { int64_t g, step, ox, oy; };

inline Lattice lattice(bool minStep2 = false) {
  Lattice L;
  L.g = G::range(2, 9);
  static const std::vector<int64_t> steps = {1, 1, 2, 2, 3, 7, 1000, int64_t(1) << 20, -1, -2, -2};
  L.step = G::oneOf(steps);
  if (L.step == -1) L.step = (int64_t(1) << 58) / L.g;
  // every power of two (and its neighbours) up to 2^54: edge lengths exactly at the word-size boundaries 2^31, 2^32, ...
  if (L.step == -2) { L.step = (int64_t(1) << G::range(1, 54)) + G::oneOf(std::vector<int64_t>{0, 0, 0, -1, 1}); if (L.step * L.g > (int64_t(1) << 58)) L.step = (int64_t(1) << 58) / L.g; }
  if (minStep2 && L.step < 2) L.step = 2;
  int64_t span = L.step * L.g;
  int64_t room = (int64_t(1) << 60) - span;
  // origin: mostly near zero, sometimes far out
  int k = (int)G::range(0, 3);
  int64_t r = k == 0 ? 0 : k == 1 ? 1000 : k == 2 ? (int64_t(1) << 40) : room;
  r = std::min(r, room);
  L.ox = G::sym(r);
  L.oy = G::sym(r);
  if (L.ox + span > (int64_t(1) << 60)) L.ox = (int64_t(1) << 60) - span;
  if (L.oy + span > (int64_t(1) << 60)) L.oy = (int64_t(1) << 60) - span;
  return L;
}
inline Point64 latPt(const Lattice& L, int64_t i, int64_t j) { return Point64(L.ox + i * L.step, L.oy + j * L.step); }

inline Path64 rectWalk(const Lattice& L) {
  Path64 p;
  if (G::chance(35)) {  // plain rectangle, either orientation
    int64_t x0 = G::range(0, L.g - 1), x1 = G::range(x0 + 1, L.g);
    int64_t y0 = G::range(0, L.g - 1), y1 = G::range(y0 + 1, L.g);
    p = {latPt(L, x0, y0), latPt(L, x1, y0), latPt(L, x1, y1), latPt(L, x0, y1)};
    if (G::coin()) std::reverse(p.begin(), p.end());
    return p;
  }
  int k = (int)G::range(2, 6);
  std::vector<int64_t> xs(k), ys(k);
  for (int t = 0; t < k; ++t) { xs[t] = G::range(0, L.g); ys[t] = G::range(0, L.g); }
  // (x0,y0),(x1,y0),(x1,y1),(x2,y1),...,(x_{k-1},y_{k-1}),(x0,y_{k-1})
  for (int t = 0; t < k; ++t) {
    p.push_back(latPt(L, xs[t], ys[t]));
    p.push_back(latPt(L, xs[(t + 1) % k], ys[t]));
  }
  return p;
}

inline Paths64 rectPaths(const Lattice& L, int lo, int hi) {
  Paths64 r;
  int n = (int)G::range(lo, hi);
  for (int k = 0; k < n; ++k) r.push_back(rectWalk(L));
  return r;
}

// ---------------------------------------------------------------------------
// G-gp: closed paths, to be filtered by the exact general-position predicate
// ---------------------------------------------------------------------------
inline Path64 randomPath(int nmin, int nmax, int64_t R, int64_t cx = 0, int64_t cy = 0) {
  int n = (int)G::range(nmin, nmax);
  Path64 p;
  for (int k = 0; k < n; ++k) p.emplace_back(cx + G::sym(R), cy + G::sym(R));
  return p;
}

// sizes at and around powers of two: counters, block sizes and capacity thresholds live there
inline int boundarySize() {
  static const std::vector<int64_t> sz = {63, 64, 65, 127, 128, 129, 130, 255, 256, 257, 258, 300};
  return (int)G::oneOf(sz);
}
// a zig-zag polyline of n vertices, monotone in x (so it never crosses itself), spanning [-R,R] in both directions
inline Path64 zigzag(int n, int64_t R) {
  Path64 p;
  for (int k = 0; k < n; ++k) {
    int64_t x = -R + (2 * R * k) / std::max(1, n - 1) + (k > 0 && k + 1 < n ? G::sym(std::max<int64_t>(1, R / (2 * n))) : 0);
    int64_t y = (k % 2 ? 1 : -1) * G::range(R / 4, R);
    p.emplace_back(x, y);
  }
  return p;
}

// make some edges exactly horizontal / vertical (still general position: the predicate decides)
inline void axisAlignSome(Path64& p, int percent) {
  for (size_t k = 1; k < p.size(); ++k) {
    if (!G::chance(percent)) continue;
    if (G::coin()) p[k].y = p[k - 1].y; else p[k].x = p[k - 1].x;
  }
}

// star-ish ring around (cx,cy): radius in [rmin,rmax], n vertices with stratified angles
inline Path64 ring(int n, int64_t cx, int64_t cy, double rmin, double rmax, bool ccw) {
  Path64 p;
  double phi = G::real(0, 6.283185307179586);
  for (int k = 0; k < n; ++k) {
    double a = phi + 6.283185307179586 * (k + G::real(0.1, 0.9)) / n;
    double r = G::real(rmin, rmax);
    p.emplace_back(cx + (int64_t)llround(r * cos(a)), cy + (int64_t)llround(r * sin(a)));
  }
  if (!ccw) std::reverse(p.begin(), p.end());
  return p;
}

// star polygon {n/k}: winding number k around the centre
inline Path64 starPolygon(int n, int k, int64_t cx, int64_t cy, double r, bool ccw) {
  Path64 p;
  double phi = G::real(0, 6.283185307179586);
  for (int t = 0; t < n; ++t) {
    double a = phi + 6.283185307179586 * ((t * k) % n + G::real(-0.15, 0.15)) / n;
    double rr = r * G::real(0.8, 1.0);
    p.emplace_back(cx + (int64_t)llround(rr * cos(a)), cy + (int64_t)llround(rr * sin(a)));
  }
  if (!ccw) std::reverse(p.begin(), p.end());
  return p;
}

// nested rings (deep nesting), alternating or equal orientation
inline Paths64 nestedRings(int depth, int64_t cx, int64_t cy, double R, bool alternate) {
  Paths64 out;
  double r = R;
  bool ccw = G::coin();
  for (int d = 0; d < depth; ++d) {
    int n = (int)G::range(3, 7);
    // ring between 0.72 r and r contains the disc of radius ~0.72 r cos(pi/n)... use a safe shrink factor
    out.push_back(ring(n, cx, cy, 0.8 * r, r, ccw));
    double inr = 0.8 * r * cos(3.141592653589793 / n * 1.8);  // stratified gaps can reach 1.8 * 2pi/n
    if (inr < 0.25 * r) inr = 0.25 * r;
    r = inr * 0.8;
    if (r < 12) break;
    if (alternate) ccw = !ccw;
  }
  return out;
}

struct GpCase { Paths64 subj, clip; std::string shape; };

// one raw G-gp candidate; R = base coordinate range
inline GpCase gpCandidate(int64_t R) {
  GpCase c;
  int kind = (int)G::range(0, 12);
  if (kind == 12 && !(R >= (1 << 16) && G::chance(40))) kind = 0;
  if (kind == 12) {
    // large: two rings of 40-160 vertices with many mutual crossings (solutions with hundreds of vertices: container
    // growth, block boundaries and anything else that depends on size)
    if (G::chance(40)) {
      // two zig-zags whose long edges all span the same horizontal band: hundreds of edge crossings between two
      // consecutive scanlines (the per-scanbeam intersection list, its sort and its processing order)
      c.shape = "large_zigzag_pair";
      // (x is random, not monotone: almost every pair of the long edges crosses inside the middle band)
      auto fan = [&](int n) { Path64 p; for (int k = 0; k < n; ++k) p.emplace_back(G::sym(R), (k % 2 ? 1 : -1) * G::range(R / 2, R)); return p; };
      c.subj.push_back(fan((int)G::range(20, 46)));
      if (G::coin()) c.clip.push_back(fan((int)G::range(4, 30))); else c.clip.push_back(zigzag((int)G::range(4, 30), R));
      return c;
    }
    c.shape = "large_rings";
    c.subj.push_back(ring(G::coin() ? boundarySize() : (int)G::range(40, 160), G::sym(R / 6), G::sym(R / 6), 0.55 * R, 0.9 * R, G::coin()));
    c.clip.push_back(ring((int)G::range(40, 160), G::sym(R / 6), G::sym(R / 6), 0.55 * R, 0.9 * R, G::coin()));
  } else if (kind == 11) {
    c.shape = "dense";   // many edges and crossings per path (needs a large range to stay in general position)
    c.subj.push_back(randomPath(15, 32, R));
    c.clip.push_back(randomPath(10, 28, R));
    if (G::coin()) c.subj.push_back(randomPath(3, 12, R));
  } else if (kind <= 4) {
    c.shape = "random";
    int ns = (int)G::range(1, 3), nc = (int)G::range(0, 3);
    int vmax = (int)G::range(3, 10);
    for (int k = 0; k < ns; ++k) c.subj.push_back(randomPath(3, vmax, R));
    for (int k = 0; k < nc; ++k) c.clip.push_back(randomPath(3, vmax, R));
    if (G::chance(30)) {   // exactly horizontal / vertical edges exercise the horizontal-edge machinery without degeneracy
      c.shape = "random_axis_edges";
      int pct = (int)G::range(15, 50);
      for (auto& p : c.subj) axisAlignSome(p, pct);
      for (auto& p : c.clip) axisAlignSome(p, pct);
    }
  } else if (kind == 10) {
    c.shape = "distinct_rectangles";   // rectilinear AND in general position: all coordinates pairwise distinct
    int n = (int)G::range(2, 6);
    std::vector<int64_t> xs, ys;
    int64_t step = std::max<int64_t>(4, R / (2 * n));
    for (int k = 0; k < 2 * n; ++k) { xs.push_back(-R / 2 + step * k + G::range(0, step / 2)); ys.push_back(-R / 2 + step * k + G::range(0, step / 2)); }
    for (int k = 2 * n - 1; k > 0; --k) { std::swap(xs[k], xs[G::pick(k + 1)]); std::swap(ys[k], ys[G::pick(k + 1)]); }
    for (int k = 0; k < n; ++k) {
      int64_t x0 = std::min(xs[2 * k], xs[2 * k + 1]), x1 = std::max(xs[2 * k], xs[2 * k + 1]);
      int64_t y0 = std::min(ys[2 * k], ys[2 * k + 1]), y1 = std::max(ys[2 * k], ys[2 * k + 1]);
      Path64 p = {Point64(x0, y0), Point64(x1, y0), Point64(x1, y1), Point64(x0, y1)};
      if (G::coin()) std::reverse(p.begin(), p.end());
      (k == 0 || G::chance(55) ? c.subj : c.clip).push_back(p);
    }
    if (G::chance(40)) c.clip.push_back(randomPath(3, 7, R));
  } else if (kind == 5) {
    c.shape = "nested";
    c.subj = nestedRings((int)G::range(2, 5), G::sym(R / 8), G::sym(R / 8), (double)R * 0.9, G::coin());
    if (G::coin()) c.clip = nestedRings((int)G::range(1, 4), G::sym(R / 4), G::sym(R / 4), (double)R * 0.7, G::coin());
    else if (G::coin()) c.clip.push_back(randomPath(3, 6, R));
  } else if (kind == 6) {
    c.shape = "star";
    int n = (int)G::range(5, 9);
    int k = (int)G::range(2, (n - 1) / 2);
    c.subj.push_back(starPolygon(n, k, G::sym(R / 8), G::sym(R / 8), (double)R * 0.9, G::coin()));
    if (G::coin()) {
      int n2 = (int)G::range(5, 9);
      c.clip.push_back(starPolygon(n2, (int)G::range(1, (n2 - 1) / 2), G::sym(R / 4), G::sym(R / 4), (double)R * 0.7, G::coin()));
    } else c.clip.push_back(randomPath(3, 7, R));
  } else if (kind == 7) {
    c.shape = "twice";  // a ring traversed twice with jitter (winding 2) + random clip
    int n = (int)G::range(3, 6);
    Path64 a = ring(n, 0, 0, 0.5 * R, 0.9 * R, G::coin());
    Path64 b = a;
    for (auto& q : b) { q.x += G::sym(R / 10) ; q.y += G::sym(R / 10); }
    a.insert(a.end(), b.begin(), b.end());
    c.subj.push_back(a);
    if (G::coin()) c.clip.push_back(randomPath(3, 7, R));
  } else if (kind == 8) {
    c.shape = "convexpair";
    c.subj.push_back(ring((int)G::range(3, 8), G::sym(R / 3), G::sym(R / 3), 0.5 * R, 0.6 * R, G::coin()));
    c.clip.push_back(ring((int)G::range(3, 8), G::sym(R / 3), G::sym(R / 3), 0.5 * R, 0.6 * R, G::coin()));
    if (G::coin()) c.subj.push_back(ring((int)G::range(3, 8), G::sym(R / 3), G::sym(R / 3), 0.2 * R, 0.4 * R, G::coin()));
  } else {
    c.shape = "manyshort";  // many short edges, Polygons.txt style
    int n = (int)G::range(8, 16);
    Path64 p;
    int64_t x = G::sym(R / 2), y = G::sym(R / 2);
    for (int k = 0; k < n; ++k) {
      x += G::sym(R / 3); y += G::sym(R / 3);
      x = std::max(-R, std::min(R, x)); y = std::max(-R, std::min(R, y));
      p.emplace_back(x, y);
    }
    c.subj.push_back(p);
    c.clip.push_back(randomPath(3, 8, R));
  }
  return c;
}

// magnitude transformation: multiply by 2^k, add low-bit jitter, translate
struct Mag { int shift; int64_t tx, ty; };
inline void applyMag(Paths64& pp, int shift, int64_t tx, int64_t ty, bool jitter) {
  for (auto& p : pp)
    for (auto& q : p) {
      int64_t jx = 0, jy = 0;
      if (jitter && shift > 2) { int64_t J = (int64_t(1) << (shift - 2)); jx = G::sym(J); jy = G::sym(J); }
      q.x = q.x * (int64_t(1) << shift) + jx + tx;
      q.y = q.y * (int64_t(1) << shift) + jy + ty;
    }
}

// ---------------------------------------------------------------------------
// G-deg: arbitrary degenerate input (duplicates, spikes, collinear runs,
// horizontals, coincident paths) in a magnitude class
// ---------------------------------------------------------------------------
inline int64_t magOfClass(int cls) {
  static const int64_t m[] = {8, 64, int64_t(1) << 20, int64_t(1) << 29, int64_t(1) << 40, int64_t(1) << 52, int64_t(1) << 62};
  return m[std::max(0, std::min(6, cls))];
}
struct DegPool { std::vector<Point64> pts; };
inline Point64 degPoint(int64_t M, DegPool& pool) {
  int k = (int)G::range(0, 9);
  Point64 q;
  if (pool.pts.empty() || k <= 4) q = Point64(G::sym(M), G::sym(M));
  else if (k == 5) q = G::oneOf(pool.pts);                                   // repeat an earlier point
  else if (k == 6) q = Point64(G::oneOf(pool.pts).x, G::sym(M));              // share an x
  else if (k == 7) q = Point64(G::sym(M), G::oneOf(pool.pts).y);              // share a y (horizontals)
  else if (k == 8 && pool.pts.size() >= 2) {                                   // on the line through two earlier points
    const Point64& a = pool.pts[G::pick(pool.pts.size())];
    const Point64& b = pool.pts[G::pick(pool.pts.size())];
    int64_t t = G::range(-1, 3);
    i128 x = (i128)a.x + (i128)t * ((i128)b.x - a.x), y = (i128)a.y + (i128)t * ((i128)b.y - a.y);
    if (x > M || x < -M || y > M || y < -M) q = a; else q = Point64((int64_t)x, (int64_t)y);
  } else {                                                                      // within a unit of an earlier point
    const Point64& a = G::oneOf(pool.pts);
    q = Point64(std::max(-M, std::min(M, a.x + G::sym(1))), std::max(-M, std::min(M, a.y + G::sym(1))));
  }
  pool.pts.push_back(q);
  return q;
}
inline Path64 degPath(int maxVerts, int64_t M, DegPool& pool) {
  int n = (int)G::range(0, maxVerts);
  Path64 p;
  for (int k = 0; k < n; ++k) p.push_back(degPoint(M, pool));
  return p;
}
inline Paths64 degPaths(int maxPaths, int maxVerts, int64_t M, DegPool& pool) {
  int n = (int)G::range(0, maxPaths);
  Paths64 r;
  for (int k = 0; k < n; ++k) {
    if (k > 0 && G::chance(10)) r.push_back(r[G::pick(r.size())]);  // coincident path
    else r.push_back(degPath(maxVerts, M, pool));
  }
  return r;
}

// the standard G-gp case with magnitude classes (shared by C01, C03, C04, C13, ...)
inline GpCase gpCase(int maxTop = 61) {
  static const std::vector<int64_t> Rs = {1 << 10, 1 << 13, 1 << 16, 1 << 16, 1 << 20, 1 << 20};
  int64_t R = G::oneOf(Rs);
  GpCase g = gpCandidate(R);
  int magClass = (int)G::range(0, 3);  // 0,1: as is; 2: up to 2^40; 3: up to 2^maxTop
  if (magClass >= 2) {
    int top = magClass == 2 ? std::min(40, maxTop) : maxTop;
    int rbits = 0;
    while ((int64_t(1) << rbits) < 2 * R) ++rbits;  // shapes may reach ~1.5 R
    if (top - rbits - 1 > 0) {
      int shift = (int)G::range(0, top - rbits - 1);
      int64_t room = (int64_t(1) << top) - ((2 * R) << shift) - (int64_t(1) << shift);
      // mostly keep the translation within 2^8 x the shape size, so that feature sizes scale with the magnitude
      // (double rounding stays far below the features); sometimes use the full range
      if (G::chance(75) && shift + rbits + 8 < 62) room = std::min(room, int64_t(1) << (shift + rbits + 8));
      int64_t tx = room > 0 ? G::sym(room) : 0, ty = room > 0 ? G::sym(room) : 0;
      // a third of the scaled cases keep the pure power-of-two lattice (fixed-point style coordinates: all coordinate
      // differences are multiples of 2^shift, so products of differences wrap to 0 in 64 bits where code is not exact)
      bool jitter = G::chance(65);
      applyMag(g.subj, shift, tx, ty, jitter);
      applyMag(g.clip, shift, tx, ty, jitter);
      if (!jitter) g.shape += "_pow2lattice";
    }
  }
  return g;
}

}  // namespace GEN
