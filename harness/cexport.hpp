// Harness-side encoder/decoder of the exported flat array layouts, written from
// the layout comment at the top of clipper.export.h (not from the library's
// converters).  Arrays handed to the library are heap blocks of EXACTLY the
// stated length, so ASan reports any access outside them.
#pragma once
#include <cstdint>
#include <cstring>
#include <vector>

#include "clipper2/clipper.export.h"

namespace cx {
using namespace Clipper2Lib;

#ifdef USINGZ
constexpr int DIM = 3;
#else
constexpr int DIM = 2;
#endif

template <class T, class Z>
inline T zbits(Z z) { T t; static_assert(sizeof(T) == sizeof(Z), ""); std::memcpy(&t, &z, sizeof t); return t; }

// ---- encode -------------------------------------------------------------
template <class T>
inline T* encodePaths(const Paths<T>& pp, bool keepEmptyPaths, size_t* lenOut = nullptr) {
  size_t len = 2, cnt = 0;
  for (auto& p : pp) if (keepEmptyPaths || !p.empty()) { len += 2 + p.size() * DIM; ++cnt; }
  T* a = new T[len];
  T* v = a;
  *v++ = (T)len;
  *v++ = (T)cnt;
  for (auto& p : pp) {
    if (!keepEmptyPaths && p.empty()) continue;
    *v++ = (T)p.size();
    *v++ = 0;
    for (auto& q : p) {
      *v++ = q.x;
      *v++ = q.y;
#ifdef USINGZ
      *v++ = zbits<T>(q.z);
#endif
    }
  }
  if (lenOut) *lenOut = len;
  return a;
}
template <class T>
inline T* encodePath(const Path<T>& p) {
  size_t len = 2 + p.size() * DIM;
  T* a = new T[len];
  T* v = a;
  *v++ = (T)p.size();
  *v++ = 0;
  for (auto& q : p) {
    *v++ = q.x;
    *v++ = q.y;
#ifdef USINGZ
    *v++ = zbits<T>(q.z);
#endif
  }
  return a;
}

// ---- decode -------------------------------------------------------------
struct DecodeInfo { bool ok = true; size_t stated = 0, consumed = 0, count = 0; const char* why = ""; };

template <class T>
inline Paths<T> decodePaths(const T* a, DecodeInfo& di) {
  Paths<T> r;
  if (!a) { di.stated = di.consumed = 0; return r; }
  const T* v = a;
  di.stated = (size_t)*v++;
  di.count = (size_t)*v++;
  for (size_t i = 0; i < di.count; ++i) {
    if ((size_t)(v - a) + 2 > di.stated) { di.ok = false; di.why = "path header beyond stated array length"; return r; }
    size_t n = (size_t)*v++;
    if (*v++ != 0) { di.ok = false; di.why = "second counter of a path is not 0"; return r; }
    if ((size_t)(v - a) + n * DIM > di.stated) { di.ok = false; di.why = "path vertices beyond stated array length"; return r; }
    Path<T> p;
    for (size_t k = 0; k < n; ++k) {
      T x = *v++, y = *v++;
#ifdef USINGZ
      T zb = *v++;
      z_type z; std::memcpy(&z, &zb, sizeof z);
      p.emplace_back(x, y, z);
#else
      p.emplace_back(x, y);
#endif
    }
    r.push_back(std::move(p));
  }
  di.consumed = (size_t)(v - a);
  if (di.consumed != di.stated) { di.ok = false; di.why = "array[0] differs from the number of elements written"; }
  return r;
}

template <class T>
struct FlatNode { Path<T> poly; std::vector<FlatNode<T>> kids; };

template <class T>
inline bool decodeNode(const T* a, const T*& v, size_t stated, FlatNode<T>& n, const char*& why) {
  if ((size_t)(v - a) + 2 > stated) { why = "node header beyond stated array length"; return false; }
  size_t np = (size_t)*v++, nc = (size_t)*v++;
  if ((size_t)(v - a) + np * DIM > stated) { why = "node vertices beyond stated array length"; return false; }
  for (size_t k = 0; k < np; ++k) {
    T x = *v++, y = *v++;
#ifdef USINGZ
    T zb = *v++;
    z_type z; std::memcpy(&z, &zb, sizeof z);
    n.poly.emplace_back(x, y, z);
#else
    n.poly.emplace_back(x, y);
#endif
  }
  for (size_t k = 0; k < nc; ++k) {
    n.kids.emplace_back();
    if (!decodeNode(a, v, stated, n.kids.back(), why)) return false;
  }
  return true;
}
// root: | A, C | CPolyPath1 | ... |
template <class T>
inline FlatNode<T> decodeTree(const T* a, DecodeInfo& di) {
  FlatNode<T> root;
  if (!a) return root;
  const T* v = a;
  di.stated = (size_t)*v++;
  di.count = (size_t)*v++;
  for (size_t k = 0; k < di.count; ++k) {
    root.kids.emplace_back();
    if (!decodeNode(a, v, di.stated, root.kids.back(), di.why)) { di.ok = false; return root; }
  }
  di.consumed = (size_t)(v - a);
  if (di.consumed != di.stated) { di.ok = false; di.why = "tree array[0] differs from the number of elements written"; }
  return root;
}

inline void treeToFlat(const PolyPath64& n, FlatNode<int64_t>& out) {
  out.poly = n.Polygon();
  for (size_t k = 0; k < n.Count(); ++k) { out.kids.emplace_back(); treeToFlat(*n[k], out.kids.back()); }
}
inline void treeToFlat(const PolyPathD& n, FlatNode<double>& out) {
  out.poly = n.Polygon();
  for (size_t k = 0; k < n.Count(); ++k) { out.kids.emplace_back(); treeToFlat(*n[k], out.kids.back()); }
}
template <class T>
inline bool sameTree(const FlatNode<T>& a, const FlatNode<T>& b) {
  if (a.poly != b.poly || a.kids.size() != b.kids.size()) return false;
  for (size_t k = 0; k < a.kids.size(); ++k) if (!sameTree(a.kids[k], b.kids[k])) return false;
  return true;
}

}  // namespace cx
