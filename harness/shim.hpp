// Namespace-neutral API through which the main harness TU (compiled against the
// "plain" library) calls other build variants of the library that are linked
// into the same binary under a renamed namespace (-DClipper2Lib=...).
#pragma once
#include <cstdint>
#include <string>
#include <vector>

namespace shim {
struct Pt { int64_t x, y, z; };
using Path = std::vector<Pt>;
using Paths = std::vector<Path>;
struct PtD { double x, y; int64_t z; };
using PathD = std::vector<PtD>;
using PathsD = std::vector<PathD>;

struct TreeNode { Path poly; bool isHole = false; std::vector<TreeNode> kids; };
struct TreeNodeD { PathD poly; bool isHole = false; std::vector<TreeNodeD> kids; };

// zcb: 0 none, 1 constant (zconst), 2 counter stamping, 3 hash of the four edge end points
struct ZLog { int64_t x, y, z; };

struct BoolArgs {
  int ct = 1, fr = 0;
  bool preserveCollinear = true, reverse = false, useTree = false;
  Paths subj, open, clip;
  int zcb = 0;
  int64_t zconst = 0;
  int64_t defaultZ = 0;
};
struct BoolResult {
  bool ok = false;
  int error = 0;
  bool threw = false;
  Paths closed, open;
  TreeNode tree;
  std::vector<ZLog> zlog;
};
struct BoolArgsD {
  int ct = 1, fr = 0, precision = 2;
  bool preserveCollinear = true, reverse = false, useTree = false;
  PathsD subj, open, clip;
  int zcb = 0;
  int64_t zconst = 0;
};
struct BoolResultD {
  bool ok = false;
  int error = 0;
  bool threw = false;
  PathsD closed, open;
  TreeNodeD tree;
  std::vector<ZLog> zlog;
};
struct OffsetGroup { Paths paths; int jt = 0, et = 0; };
struct OffsetArgs {
  std::vector<OffsetGroup> groups;
  double delta = 1, miterLimit = 2, arcTol = 0;
  bool preserveCollinear = false, reverse = false, useTree = false;
  int zcb = 0;
  int64_t zconst = 0;
};
struct OffsetResult { int error = 0; Paths closed; TreeNode tree; std::vector<ZLog> zlog; };
struct RectArgs { int64_t l, t, r, b; Paths paths; bool lines = false; };
// C11 probes of the argument-validation paths
enum ProbeKind { P_ClipperD_Subject, P_ClipperD_Clip, P_ClipperD_Open, P_BooleanOpD, P_UnionD, P_InflatePathsD, P_RectClipD,
                 P_RectClipLinesD, P_TrimCollinearD, P_ScalePath, P_MakePath, P_MakePathD, P_BooleanOpTreeD, P_ScalePaths2, P_NKINDS };
struct ProbeArgs {
  int kind = 0, precision = 2;
  PathsD paths;            // non-empty input paths
  double scale = 1;        // for P_ScalePath
  double scaleX = 1, scaleY = 1;   // for P_ScalePaths2 (the two-scale overload of ScalePaths)
  std::vector<int64_t> list;  // for P_MakePath / P_MakePathD
  double delta = 1;
  double l = -1e9, t = -1e9, r = 1e9, b = 1e9;  // rectangle
};
struct ProbeResult {
  bool threw = false;
  bool hasErrorCode = false;  // the call has an error-code channel
  int error = 0;
  size_t outPaths = 0, outPts = 0;
};
}  // namespace shim

#define VERIF_DECL_SHIM(ns)                                                   \
  namespace ns {                                                              \
  shim::BoolResult boolop(const shim::BoolArgs&);                             \
  shim::BoolResultD boolopD(const shim::BoolArgsD&);                          \
  shim::OffsetResult offset(const shim::OffsetArgs&);                         \
  shim::Paths rectclip(const shim::RectArgs&);                                \
  bool segIntersect(const shim::Pt& a, const shim::Pt& b, const shim::Pt& c,  \
                    const shim::Pt& d, shim::Pt& ip);                         \
  shim::ProbeResult probe(const shim::ProbeArgs&);                            \
  const char* variantName();                                                  \
  }

VERIF_DECL_SHIM(shim_plain)
VERIF_DECL_SHIM(shim_hp)
VERIF_DECL_SHIM(shim_z)
VERIF_DECL_SHIM(shim_ne)
