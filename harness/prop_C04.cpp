// C04 — PolyTree solutions carry the same paths with correct nesting.
#include "gen.hpp"

namespace {

const ClipType CTS[] = {ClipType::Intersection, ClipType::Union, ClipType::Difference, ClipType::Xor};
const FillRule FRS[] = {FillRule::EvenOdd, FillRule::NonZero, FillRule::Positive, FillRule::Negative};

// strict scope: no mismatch is attributed to KF-C04-a (used by the enumerated part, on which the pinned tree is clean)
bool STRICT = false;

struct Node { Path64 poly; int level; int parent; std::vector<int> kids; bool isHole; };

void flatten(const PolyPath64& n, int parent, std::vector<Node>& out) {
  int me = (int)out.size();
  out.push_back({n.Polygon(), (int)n.Level(), parent, {}, n.IsHole()});
  if (parent >= 0) out[parent].kids.push_back(me);
  for (size_t k = 0; k < n.Count(); ++k) flatten(*n[k], me, out);
}
// PolyTreeD flattened into integer coordinates (x * mul must be integral)
void flattenD(const PolyPathD& n, int parent, double mul, std::vector<Node>& out, bool& exact) {
  int me = (int)out.size();
  Path64 p;
  for (auto& q : n.Polygon()) {
    double x = q.x * mul, y = q.y * mul;
    if (x != std::floor(x) || y != std::floor(y)) exact = false;
    p.emplace_back((int64_t)x, (int64_t)y);
  }
  out.push_back({p, (int)n.Level(), parent, {}, n.IsHole()});
  if (parent >= 0) out[parent].kids.push_back(me);
  for (size_t k = 0; k < n.Count(); ++k) flattenD(*n[k], me, mul, out, exact);
}

// do two closed paths touch (a vertex of one lies on an edge of the other)?
bool pathsTouch(const Path64& a, const Path64& b) {
  for (int pass = 0; pass < 2; ++pass) {
    const Path64& p = pass ? b : a;
    const Path64& q = pass ? a : b;
    for (size_t i = 0; i < p.size(); ++i)
      for (size_t k = 0; k < q.size(); ++k) {
        if (&p == &q && (k == i || (k + 1) % q.size() == i)) continue;  // self test: skip incident edges
        if (O::onSegment(p[i], q[k], q[(k + 1) % q.size()])) return true;
      }
  }
  return false;
}

// nesting / orientation clauses on a flattened tree
bool checkTree(const std::vector<Node>& nodes, bool rev, bool degenerateInput, std::string& why, Verdict& v, int& maxLevel) {
  std::vector<Path64> d2(nodes.size());
  for (size_t k = 0; k < nodes.size(); ++k) d2[k] = O::dblPath(nodes[k].poly);
  std::vector<char> tainted(nodes.size(), 0);  // node or an ancestor is in class KF-C04-a
  for (size_t k = 1; k < nodes.size(); ++k) {
    const Node& n = nodes[k];
    maxLevel = std::max(maxLevel, n.level);
    if (n.poly.size() < 3) { why = "tree node with fewer than 3 vertices"; return false; }
    bool wantHole = n.level >= 2 && (n.level % 2 == 0);
    if (n.isHole != wantHole) { why = "IsHole() inconsistent with level " + std::to_string(n.level); return false; }
    if (O::area2(n.poly) == 0) {
      // on degenerate input a hole and an adjacent outer region can be emitted as one self-touching path (cf. KF-C03-c)
      if (!STRICT && degenerateInput && O::compositePath(n.poly)) { tainted[k] = 1; v.known = "KF-C04-a"; ST.count("kf_selftouching_zero_area_path"); continue; }
      why = "zero-area polygon in tree";
      return false;
    }
    bool positive = O::area2(n.poly) > 0;
    bool wantPositive = (!wantHole) != rev;
    if (n.parent >= 0 && tainted[n.parent]) tainted[k] = 1;
    // inside parent
    if (n.parent > 0) {
      int r = O::insideByMidpoints(n.poly, d2[n.parent]);
      if (r == 0 || r == -2) {
        if (!STRICT && (degenerateInput || pathsTouch(n.poly, nodes[n.parent].poly))) { tainted[k] = 1; v.known = "KF-C04-a"; ST.count("kf_touching_child_not_inside_parent"); }
        else { why = "polygon starting " + O::ptStr(n.poly[0]) + " (level " + std::to_string(n.level) + ") does not lie inside its parent"; return false; }
      }
      if (r == -1) ST.count("nesting_unresolved");
      if (r == 1) ST.count("child_inside_parent_checked");
    }
    // outside siblings
    const Node& par = nodes[n.parent];
    for (int s : par.kids) {
      if (s == (int)k) continue;
      int r = O::insideByMidpoints(n.poly, d2[s]);
      if (r == 1 || r == -2) {
        if (!STRICT && (degenerateInput || pathsTouch(n.poly, nodes[s].poly))) { tainted[k] = 1; tainted[s] = 1; v.known = "KF-C04-a"; ST.count("kf_touching_polygon_inside_sibling"); }
        else { why = "polygon starting " + O::ptStr(n.poly[0]) + " lies inside its sibling starting " + O::ptStr(nodes[s].poly[0]); return false; }
      }
    }
    if (tainted[k]) continue;
    if (positive != wantPositive) {
      // a sibling processed later may taint this node: look ahead
      bool later = false;
      for (int s : par.kids) if (s != (int)k && pathsTouch(n.poly, nodes[s].poly) && O::insideByMidpoints(nodes[s].poly, d2[k]) != 0) later = true;
      for (int s : par.kids) if (s != (int)k && pathsTouch(n.poly, nodes[s].poly) && O::insideByMidpoints(n.poly, d2[s]) != 0) later = true;
      if (degenerateInput) {
        // is this node geometrically nested consistently with its orientation?  (then only its tree position is wrong)
        int depth = 0;
        for (size_t q = 1; q < nodes.size(); ++q) if (q != k && O::insideByMidpoints(n.poly, d2[q]) == 1) ++depth;
        if (((depth % 2 == 0) != rev) == positive) later = true;
      }
      if (later && !STRICT) { tainted[k] = 1; v.known = "KF-C04-a"; ST.count("kf_touching_orientation"); continue; }
      why = "polygon starting " + O::ptStr(n.poly[0]) + " at level " + std::to_string(n.level) + " has " +
            (positive ? "positive" : "negative") + " orientation";
      return false;
    }
  }
  return true;
}

Verdict judgeImpl(const Case& c, bool gp, bool strictRect = false) {
  Verdict v;
  const Paths64& subj = c.P("subj");
  const Paths64& clip = c.P("clip");
  const Paths64& open = c.P("open");
  Paths64 all = subj;
  all.insert(all.end(), clip.begin(), clip.end());
  Paths64 allO = all;
  allO.insert(allO.end(), open.begin(), open.end());
  int64_t m = O::maxAbs(allO);
  if (all.empty() || m > (int64_t(1) << 59)) { v.discard = true; return v; }
  std::vector<O::Seg> segs = O::segsOf(all), osegs = O::segsOf(open, false, (int)all.size());
  if (gp) {
    for (auto& p : all) if (p.size() < 3) { v.discard = true; return v; }
    for (auto& p : open) if (p.size() < 2) { v.discard = true; return v; }
    ld sep = 3.0L + (ld)m * ldexpl(1.0L, -40);
    if (!O::generalPosition(segs, sep, nullptr, &osegs)) { v.discard = true; ST.count("discard_not_general_position"); return v; }
  } else {
    for (auto& s : segs) if (s.a.x != s.b.x && s.a.y != s.b.y) { v.discard = true; return v; }
    // features at least 2 units apart: all coordinates on a lattice of even step
    std::set<int64_t> xs, ys;
    for (auto& p : allO) for (auto& q : p) { xs.insert(q.x); ys.insert(q.y); }
    auto tooClose = [](const std::set<int64_t>& s) { int64_t prev = 0; bool first = true; for (auto x : s) { if (!first && x - prev < 2) return true; prev = x; first = false; } return false; };
    if (tooClose(xs) || tooClose(ys)) { v.discard = true; return v; }
  }
  // degenerate input: a vertex lies on an edge it is not an end of, or a zero-length edge (never in general position)
  bool degenerateInput = false;
  if (!gp) {
    std::map<int, int> plen;
    for (auto& s : segs) plen[s.path] = std::max(plen[s.path], s.idx + 1);
    for (auto& sv : segs) {
      if (sv.a == sv.b) degenerateInput = true;
      for (auto& e : segs) {
        if (degenerateInput) break;
        if (e.path == sv.path && (e.idx == sv.idx || (e.idx + 1) % plen[e.path] == sv.idx)) continue;
        if (O::onSegment(sv.a, e.a, e.b)) degenerateInput = true;
      }
    }
    ST.count(degenerateInput ? "rect_input_degenerate" : "rect_input_nondegenerate");
    (void)strictRect;
  }
#ifdef C04_STRICT
  degenerateInput = false;   // development switch: judge degenerate input as strictly as general-position input
#endif
  bool useD = m <= (int64_t(1) << 50) && c.I("useD", 1);
  int maxLevel = 0;
  PolyTree64 sharedTree;
  PolyTreeD sharedTreeD;
  for (ClipType ct : CTS)
    for (FillRule fr : FRS)
      for (int pc = 0; pc < 2; ++pc)
        for (int rev = 0; rev < 2; ++rev) {
          std::string cfg = std::string(" [") + O::ctName(ct) + "," + O::frName(fr) + ",pc=" + std::to_string(pc) + ",rev=" + std::to_string(rev) + "]";
          Paths64 solP, openP, openT;
          // one tree object serves every configuration of a case: Execute must replace its content, not add to it
          PolyTree64& tree = sharedTree;
          {
            Clipper64 cl; cl.PreserveCollinear(pc); cl.ReverseSolution(rev);
            cl.AddSubject(subj); cl.AddClip(clip); if (!open.empty()) cl.AddOpenSubject(open);
            if (!cl.Execute(ct, fr, solP, openP)) { v.fail("Execute(paths) returned false" + cfg); return v; }
          }
          {
            Clipper64 cl; cl.PreserveCollinear(pc); cl.ReverseSolution(rev);
            cl.AddSubject(subj); cl.AddClip(clip); if (!open.empty()) cl.AddOpenSubject(open);
            if (!cl.Execute(ct, fr, tree, openT)) { v.fail("Execute(tree) returned false" + cfg); return v; }
          }
          v.evals++;
          // (i) same set of paths
          if (O::canon(PolyTreeToPaths64(tree)) != O::canon(solP)) { v.fail("PolyTree paths differ from Paths result" + cfg); return v; }
          if (O::sortedOpen(openT) != O::sortedOpen(openP)) { v.fail("open paths differ between tree and paths execution" + cfg); return v; }
          // (ii)(iii)
          std::vector<Node> nodes;
          flatten(tree, -1, nodes);
          std::string why;
          if (!checkTree(nodes, rev, degenerateInput, why, v, maxLevel)) { v.fail(why + cfg); return v; }
          // (iv) areas
          double at = tree.Area(), ap = Area(solP);
          if (std::fabs(at - ap) > 1e-9 * std::max(1.0, std::fabs(ap))) { v.fail("tree.Area() " + std::to_string(at) + " != paths area " + std::to_string(ap) + cfg); return v; }
          // ---- free functions: BooleanOp into a tree carries the same paths as BooleanOp into paths ----
          if (pc == 0 && rev == 0 && open.empty()) {
            PolyTree64 ft;
            BooleanOp(ct, fr, subj, clip, ft);
            if (O::canon(PolyTreeToPaths64(ft)) != O::canon(BooleanOp(ct, fr, subj, clip))) { v.fail("BooleanOp(..., PolyTree64&) and BooleanOp(...) -> Paths64 return different paths" + cfg); return v; }
            v.evals++;
            if (useD) {
              int prec = (int)c.I("prec", 2);
              double sc = 1; while (sc <= std::pow(10.0, prec)) sc *= 2;   // ClipperD's scale: smallest power of two above 10^precision
              if ((double)m * sc < 4e15) {
                PathsD sd = TransformPaths<double, int64_t>(subj), cd = TransformPaths<double, int64_t>(clip);
                PolyTreeD ftd;
                BooleanOp(ct, fr, sd, cd, ftd, prec);
                PathsD fpd = BooleanOp(ct, fr, sd, cd, prec);
                auto toGrid = [&](const PathsD& pp) { Paths64 r; for (auto& p : pp) { Path64 q; for (auto& pt : p) q.emplace_back((int64_t)std::llround(pt.x * sc), (int64_t)std::llround(pt.y * sc)); r.push_back(q); } return r; };
                if (O::canon(toGrid(PolyTreeToPathsD(ftd))) != O::canon(toGrid(fpd))) {
                  v.fail("BooleanOp(..., PolyTreeD&, precision=" + std::to_string(prec) + ") and BooleanOp(..., precision) -> PathsD return different paths" + cfg);
                  return v;
                }
                double ta = ftd.Area(), pa = Area(fpd);
                if (std::fabs(ta - pa) > 1e-9 * std::max(1.0, std::fabs(pa))) { v.fail("BooleanOp PolyTreeD Area() differs from the PathsD area at precision " + std::to_string(prec) + cfg); return v; }
                v.evals++;
                ST.count("free_function_treeD_precision_" + std::to_string(prec));
              }
            }
          }
          if (!useD) continue;
          // ---- PolyTreeD ----
          PathsD sd = TransformPaths<double, int64_t>(subj), cd = TransformPaths<double, int64_t>(clip), od = TransformPaths<double, int64_t>(open);
          PathsD solPD, openPD, openTD;
          PolyTreeD& treeD = sharedTreeD;
          // the precision alternates between configurations, so the shared tree is re-filled by clippers of different scale
          int dp = (((int)ct + (int)fr) & 1) ? (int)c.I("prec", 2) : 0;
          double mul = 2; while (mul <= std::pow(10.0, dp)) mul *= 2;   // ClipperD's grid: smallest power of two above 10^precision
          if ((double)m * mul > 4e15) { dp = 0; mul = 2; }
          {
            ClipperD cl(dp); cl.PreserveCollinear(pc); cl.ReverseSolution(rev);
            cl.AddSubject(sd); cl.AddClip(cd); if (!od.empty()) cl.AddOpenSubject(od);
            if (!cl.Execute(ct, fr, solPD, openPD)) { v.fail("ClipperD Execute(paths) returned false" + cfg); return v; }
          }
          {
            ClipperD cl(dp); cl.PreserveCollinear(pc); cl.ReverseSolution(rev);
            cl.AddSubject(sd); cl.AddClip(cd); if (!od.empty()) cl.AddOpenSubject(od);
            if (!cl.Execute(ct, fr, treeD, openTD)) { v.fail("ClipperD Execute(tree) returned false" + cfg); return v; }
          }
          v.evals++;
          // compare in the integer coordinates of ClipperD's internal grid (mul = 2 at precision 0)
          std::vector<Node> nd;
          bool exact = true;
          flattenD(treeD, -1, mul, nd, exact);
          Paths64 tp, pp;
          for (size_t k = 1; k < nd.size(); ++k) tp.push_back(nd[k].poly);
          for (auto& p : solPD) { Path64 q; for (auto& pt : p) { double x = pt.x * mul, y = pt.y * mul; if (x != std::floor(x) || y != std::floor(y)) exact = false; q.emplace_back((int64_t)x, (int64_t)y); } pp.push_back(q); }
          if (!exact) { v.fail("ClipperD(precision " + std::to_string(dp) + ") result is not on its 1/" + std::to_string((int)mul) + " grid" + cfg); return v; }
          if (O::canon(tp) != O::canon(pp)) { v.fail("PolyTreeD paths differ from PathsD result" + cfg); return v; }
          auto cmpOpen = [](PathsD a, PathsD b) {
            auto less = [](const PathD& x, const PathD& y) { return std::lexicographical_compare(x.begin(), x.end(), y.begin(), y.end(), [](const PointD& p, const PointD& q) { return p.x != q.x ? p.x < q.x : p.y < q.y; }); };
            std::sort(a.begin(), a.end(), less); std::sort(b.begin(), b.end(), less);
            return a == b;
          };
          if (!cmpOpen(openTD, openPD)) { v.fail("ClipperD open paths differ between tree and paths execution" + cfg); return v; }
          int ml = 0;
          if (!checkTree(nd, rev, degenerateInput, why, v, ml)) { v.fail("PolyTreeD: " + why + cfg); return v; }
          double atd = treeD.Area(), apd = Area(solPD);
          if (std::fabs(atd - apd) > 1e-9 * std::max(1.0, std::fabs(apd))) { v.fail("PolyTreeD Area() differs from PathsD area" + cfg); return v; }
        }
  v.nontrivial = maxLevel >= 2;
  ST.count("max_tree_depth_" + std::to_string(std::min(maxLevel, 6)));
  return v;
}
Verdict judgeGp(const Case& c) { return judgeImpl(c, true); }
Verdict judgeRect(const Case& c) { return judgeImpl(c, false); }
Verdict judgeRectPlain(const Case& c) { return judgeImpl(c, false, true); }
Verdict judgeStrict(const Case& c) { STRICT = true; Verdict v = judgeImpl(c, false, true); STRICT = false; return v; }

Case genGp() {
  Case c;
  GEN::GpCase g;
  if (G::chance(60)) {
    // nesting-heavy: one or two stacks of nested rings, optionally with a second nested stack or a random clip
    int64_t R = G::oneOf(std::vector<int64_t>{1 << 13, 1 << 16, 1 << 20});
    g.shape = "deepnest";
    bool alt = G::chance(70);
    g.subj = GEN::nestedRings((int)G::range(3, 7), G::sym(R / 10), G::sym(R / 10), (double)R, alt);
    if (G::coin()) {
      Paths64 more = GEN::nestedRings((int)G::range(2, 5), 3 * R + G::sym(R / 4), G::sym(R / 4), (double)R, G::coin());
      g.subj.insert(g.subj.end(), more.begin(), more.end());
    }
    int k = (int)G::range(0, 3);
    if (k == 1) g.clip = GEN::nestedRings((int)G::range(2, 6), G::sym(R / 3), G::sym(R / 3), (double)R * 0.9, G::coin());
    else if (k == 2) g.clip.push_back(GEN::randomPath(3, 8, R));
    else if (k == 3) { g.clip.push_back(GEN::ring((int)G::range(3, 7), G::sym(R / 2), G::sym(R / 2), 0.3 * R, 0.6 * R, G::coin())); }
    if (G::chance(30)) { int shift = (int)G::range(0, 30); GEN::applyMag(g.subj, shift, 0, 0, true); GEN::applyMag(g.clip, shift, 0, 0, true); }
  } else {
    g = GEN::gpCase(59);
  }
  ST.count("shape_" + g.shape);
  c.p["subj"] = g.subj;
  c.p["clip"] = g.clip;
  c.i["prec"] = G::range(0, 4);
  if (G::chance(25)) {
    int64_t R = std::max<int64_t>(O::maxAbs(g.subj), 1000);
    Paths64 open;
    int n = (int)G::range(1, 2);
    for (int k = 0; k < n; ++k) open.push_back(GEN::randomPath(2, 5, R));
    c.p["open"] = open;
  }
  return c;
}
Case genRect() {
  GEN::Lattice L = GEN::lattice(true);
  if (L.step % 2) L.step += 1;
  if (L.ox % 2) L.ox -= 1;  // irrelevant for spacing, keeps numbers tidy
  if (L.ox > (int64_t(1) << 58) || L.ox < -(int64_t(1) << 58)) L.ox /= 4;
  if (L.oy > (int64_t(1) << 58) || L.oy < -(int64_t(1) << 58)) L.oy /= 4;
  if (L.step * L.g > (int64_t(1) << 57)) L.step /= 4;
  Case c;
  c.p["subj"] = GEN::rectPaths(L, 1, 4);
  c.p["clip"] = GEN::rectPaths(L, 0, 3);
  c.i["prec"] = G::range(0, 4);
  return c;
}

// sets of plain rectangles on a small lattice: many shared lines, touching and overlapping edges, nesting
Case genRectPlain() {
  Case c;
  int64_t g = G::range(3, 8), step = G::oneOf(std::vector<int64_t>{2, 2, 10, 1000});
  int n = (int)G::range(2, 6);
  Paths64 subj, clip;
  for (int k = 0; k < n; ++k) {
    int64_t x0 = G::range(0, g - 1), x1 = G::range(x0 + 1, g), y0 = G::range(0, g - 1), y1 = G::range(y0 + 1, g);
    if (k == 0 && G::chance(60)) { x0 = 0; y0 = 0; x1 = g; y1 = g; }  // an enclosing rectangle makes nesting likely
    Path64 p = {Point64(x0 * step, y0 * step), Point64(x1 * step, y0 * step), Point64(x1 * step, y1 * step), Point64(x0 * step, y1 * step)};
    if (G::coin()) std::reverse(p.begin(), p.end());
    (k == 0 || G::chance(65) ? subj : clip).push_back(p);
  }
  c.p["subj"] = subj;
  c.p["clip"] = clip;
  return c;
}

// rectangles whose x's and y's are pairwise distinct even numbers: rectilinear but free of coincidences
Case genRectDistinct() {
  Case c;
  int n = (int)G::range(2, 7);
  std::vector<int64_t> xs, ys;
  int64_t step = G::oneOf(std::vector<int64_t>{2, 2, 4, 1000, int64_t(1) << 30});
  for (int k = 0; k < 2 * n; ++k) { xs.push_back(step * k); ys.push_back(step * k); }
  // random permutations via rapidcheck picks
  for (int k = 2 * n - 1; k > 0; --k) { std::swap(xs[k], xs[G::pick(k + 1)]); std::swap(ys[k], ys[G::pick(k + 1)]); }
  Paths64 subj, clip;
  for (int k = 0; k < n; ++k) {
    int64_t x0 = std::min(xs[2 * k], xs[2 * k + 1]), x1 = std::max(xs[2 * k], xs[2 * k + 1]);
    int64_t y0 = std::min(ys[2 * k], ys[2 * k + 1]), y1 = std::max(ys[2 * k], ys[2 * k + 1]);
    Path64 p = {Point64(x0, y0), Point64(x1, y0), Point64(x1, y1), Point64(x0, y1)};
    if (G::coin()) std::reverse(p.begin(), p.end());
    (k == 0 || G::chance(60) ? subj : clip).push_back(p);
  }
  c.p["subj"] = subj;
  c.p["clip"] = clip;
  return c;
}

// exhaustive scope: an enclosing square plus three rectangles of the interior lattice (step 2, so features are 2 apart
// unless they coincide), the third one once as subject and once as clip.  Shared lines, overlapping edges, touching
// corners, rectangles merged by horizontal joins into rings with islands: all occur.  Judged strictly.
void enumNest3N(int G, const std::function<void(const Case&)>& f) {
  Paths64 rects;
  for (int x0 = 1; x0 < G; ++x0) for (int x1 = x0 + 1; x1 < G; ++x1)
    for (int y0 = 1; y0 < G; ++y0) for (int y1 = y0 + 1; y1 < G; ++y1)
      rects.push_back({Point64(2 * x0, 2 * y0), Point64(2 * x1, 2 * y0), Point64(2 * x1, 2 * y1), Point64(2 * x0, 2 * y1)});
  Path64 outer = {Point64(0, 0), Point64(2 * G, 0), Point64(2 * G, 2 * G), Point64(0, 2 * G)};
  for (size_t a = 0; a < rects.size(); ++a)
    for (size_t b = a; b < rects.size(); ++b)
      for (size_t d = 0; d < rects.size(); ++d) {
        if (d >= b) { Case c; c.p["subj"] = {outer, rects[a], rects[b], rects[d]}; c.p["clip"] = {}; c.i["useD"] = 0; f(c); }
        { Case c; c.p["subj"] = {outer, rects[a], rects[b]}; c.p["clip"] = {rects[d]}; c.i["useD"] = (a + b + d) % 7 == 0; f(c); }
      }
}

void enumNest3(const std::function<void(const Case&)>& f) { enumNest3N(5, f); }
void enumNest3Big(const std::function<void(const Case&)>& f) { enumNest3N(6, f); }

}  // namespace

int main(int argc, char** argv) {
  Harness H;
  H.property = "C04";
  H.parts.push_back({"gp", genGp, judgeGp, nullptr, true});
  H.parts.push_back({"rect", genRect, judgeRect, nullptr, true});
  H.parts.push_back({"rectdistinct", genRectDistinct, judgeRect, nullptr, true});
  H.parts.push_back({"rectplain", genRectPlain, judgeRectPlain, nullptr, true});
  H.parts.push_back({"nest3", nullptr, judgeStrict, enumNest3, false});
  H.parts.push_back({"nest3big", nullptr, judgeRectPlain, enumNest3Big, false});  // KF-C04-a occurs in this scope: not strict
  return harnessMain(argc, argv, H);
}
