// C03 — closed solution paths are well formed.
#include "gen.hpp"

namespace {

const ClipType CTS[] = {ClipType::Intersection, ClipType::Union, ClipType::Difference, ClipType::Xor};
const FillRule FRS[] = {FillRule::EvenOdd, FillRule::NonZero, FillRule::Positive, FillRule::Negative};

std::string cfgStr(ClipType ct, FillRule fr, int pc, int rev) {
  return std::string(" [") + O::ctName(ct) + "," + O::frName(fr) + ",pc=" + std::to_string(pc) + ",rev=" +
         std::to_string(rev) + "]";
}

// --- structural predicate: every input whatsoever --------------------------
bool structural(const Paths64& sol, const Paths64& allInputs, std::string& why, bool degenerateOk, bool* knownE) {
  int64_t m = O::maxAbs(allInputs);
  bool useBox = m <= (int64_t(1) << 52);
  int64_t l = INT64_MAX, r = INT64_MIN, t = INT64_MAX, b = INT64_MIN;
  for (auto& p : allInputs) for (auto& q : p) { l = std::min(l, q.x); r = std::max(r, q.x); t = std::min(t, q.y); b = std::max(b, q.y); }
  for (auto& p : sol) {
    if (p.size() < 3) { why = "closed solution path with " + std::to_string(p.size()) + " vertices"; return false; }
    for (size_t k = 0; k < p.size(); ++k) {
      if (p[k] == p[(k + 1) % p.size()]) { why = "consecutive equal vertices " + O::ptStr(p[k]); return false; }
      if (useBox && (p[k].x < l || p[k].x > r || p[k].y < t || p[k].y > b)) {
        // KF-C03-e: on heavily degenerate input a vertex was seen outside the box ON the extension of an input edge
        // (an overshooting horizontal run); only that shape is classified
        if (degenerateOk) {
          bool onExtension = false;
          for (auto& ip : allInputs) for (size_t e = 0; e + 1 <= ip.size() && !onExtension; ++e) {
            const Point64 &a = ip[e], &b2 = ip[(e + 1) % ip.size()];
            if (!(a == b2) && O::cross(a, b2, p[k]) == 0) onExtension = true;
          }
          if (onExtension) { *knownE = true; continue; }
        }
        why = "solution vertex " + O::ptStr(p[k]) + " outside the bounding box of the inputs";
        return false;
      }
    }
  }
  return true;
}

using O::dbl;
using O::dblPath;

// split every path at vertices it visits twice (KF-C03-a normalisation)
Paths64 splitAtRepeats(const Paths64& pp, bool* didSplit = nullptr) {
  Paths64 out;
  for (auto& p : pp) {
    std::vector<Point64> st;
    for (auto& q : p) {
      auto it = std::find(st.begin(), st.end(), q);
      if (it != st.end()) {
        out.emplace_back(it, st.end());
        st.erase(it + 1, st.end());
        if (didSplit) *didSplit = true;
      } else st.push_back(q);
    }
    if (!st.empty()) out.push_back(Path64(st.begin(), st.end()));
  }
  return out;
}

// doubled coordinates (exact midpoints)

// does some solution vertex lie on a solution edge it is not an end of (paths touch each other or themselves)?
bool touching(const Paths64& sol) {
  std::vector<O::Seg> ss = O::segsOf(sol);
  for (size_t pi = 0; pi < sol.size(); ++pi) {
    size_t n = sol[pi].size();
    for (size_t k = 0; k < n; ++k)
      for (auto& e : ss) {
        if (e.path == (int)pi && (e.idx == (int)k || (e.idx + 1) % (int)n == (int)k)) continue;
        if (O::onSegment(sol[pi][k], e.a, e.b)) return true;
      }
  }
  return false;
}
// --- geometric predicate: general position or rectilinear inputs -------------
bool geometric(const Paths64& sol, const std::vector<O::Seg>& inSegs, ld tau, bool pc, bool rev, bool rectMode,
               std::string& why, Verdict& v) {
  // (a) area, spikes; (d) collinear
  for (auto& p : sol) {
    if (O::area2(p) == 0) {
      if (rectMode && O::compositePath(p)) { v.known = "KF-C03-c"; ST.count("selftouching_zero_area_path"); continue; }
      why = "zero-area solution path";
      return false;
    }
    size_t n = p.size();
    for (size_t k = 0; k < n; ++k) {
      const Point64 &a = p[(k + n - 1) % n], &b = p[k], &c = p[(k + 1) % n];
      i128 cr = O::cross(a, b, c);
      if (cr == 0) {
        if (O::dot(b, a, c) > 0) { why = "180-degree spike at " + O::ptStr(b); return false; }
        if (!pc) { why = "three consecutive collinear vertices at " + O::ptStr(b) + " with PreserveCollinear off"; return false; }
      }
    }
  }
  // (b) no two solution edges properly cross
  std::vector<O::Seg> ss = O::segsOf(sol);
  for (size_t i = 0; i < ss.size(); ++i)
    for (size_t j = i + 1; j < ss.size(); ++j)
      if (O::properCross(ss[i].a, ss[i].b, ss[j].a, ss[j].b)) {
        if (rectMode) {
          // KF-C03-d: two single edges that really cross leave a quadrant with winding 2 or -1.  If all four
          // quadrants around the crossing are covered 0 or 1 times, further edges pass through the same lattice
          // point (a multiply visited point of a degenerate input) and the crossing is a representation artefact.
          const O::Seg& sv = ss[i].a.x == ss[i].b.x ? ss[i] : ss[j];
          const O::Seg& sh = ss[i].a.x == ss[i].b.x ? ss[j] : ss[i];
          int64_t x = sv.a.x, y = sh.a.y;
          int w[4];
          const int dx[4] = {1, -1, -1, 1}, dy[4] = {1, 1, -1, -1};
          for (int q = 0; q < 4; ++q) {
            Point64 s2(2 * x + dx[q], 2 * y + dy[q]);
            w[q] = 0;
            for (auto& p : sol) w[q] += O::winding(s2, dblPath(p)).w;
          }
          int sgnv = rev ? -1 : 1;
          bool valid = true;
          for (int q = 0; q < 4; ++q) if (w[q] != 0 && w[q] != sgnv) valid = false;
          if (valid) {
            v.known = "KF-C03-d";
            ST.count("crossing_at_multiply_visited_point");
            continue;
          }
        }
        why = "solution edges " + O::ptStr(ss[i].a) + "-" + O::ptStr(ss[i].b) + " and " + O::ptStr(ss[j].a) + "-" +
              O::ptStr(ss[j].b) + " properly cross";
        return false;
      }
  // (e) every vertex within tau of an input edge
  for (auto& p : sol)
    for (auto& q : p)
      if (O::distToSegs(q, inSegs) > tau) { why = "solution vertex " + O::ptStr(q) + " farther than the tolerance from every input edge"; return false; }
  // (c) orientation parity by nesting depth
  std::vector<Path64> d2;
  for (auto& p : sol) d2.push_back(dblPath(p));
  for (size_t i = 0; i < sol.size(); ++i) {
    int depth = 0;
    bool unresolved = false, ambiguous = false;
    for (size_t j = 0; j < sol.size() && !unresolved && !ambiguous; ++j) {
      if (i == j) continue;
      int in = 0, out = 0;
      size_t n = sol[i].size();
      for (size_t k = 0; k < n; ++k) {
        Point64 mid(sol[i][k].x + sol[i][(k + 1) % n].x, sol[i][k].y + sol[i][(k + 1) % n].y);
        O::Wn w = O::winding(mid, d2[j]);
        if (w.on) continue;
        if (w.w != 0) ++in; else ++out;
      }
      if (in && out) ambiguous = true;      // partly inside, partly outside without a proper crossing: touching paths
      else if (!in && !out) unresolved = true;
      else if (in) ++depth;
    }
    if (ambiguous) { v.known = "KF-C03-c"; ST.count("orientation_path_partly_inside_another"); continue; }
    if (unresolved) { ST.count("orientation_unresolved_paths"); continue; }
    bool positive = O::area2(sol[i]) > 0;
    bool wantPositive = (depth % 2 == 0) != rev;
    if (positive != wantPositive) {
      why = "path starting " + O::ptStr(sol[i][0]) + " nested in " + std::to_string(depth) + " paths has " +
            (positive ? "positive" : "negative") + " orientation";
      return false;
    }
    if (depth > 0) ST.count("nested_paths_checked");
  }
  (void)v;
  return true;
}

// equal regions (net winding) of two path sets; exact per cell for rectilinear sets, sampled per face otherwise
bool sameRegion(const Paths64& a, const Paths64& b, bool rect) {
  Paths64 all = a;
  all.insert(all.end(), b.begin(), b.end());
  if (rect) {
    std::vector<int64_t> xs, ys;
    for (auto& p : all) for (auto& q : p) { xs.push_back(q.x); ys.push_back(q.y); }
    std::sort(xs.begin(), xs.end()); xs.erase(std::unique(xs.begin(), xs.end()), xs.end());
    std::sort(ys.begin(), ys.end()); ys.erase(std::unique(ys.begin(), ys.end()), ys.end());
    for (size_t i = 0; i + 1 < xs.size(); ++i)
      for (size_t j = 0; j + 1 < ys.size(); ++j) {
        Point64 mid(xs[i] + xs[i + 1], ys[j] + ys[j + 1]);
        int wa = 0, wb = 0;
        for (auto& p : a) wa += O::winding(mid, dblPath(p)).w;
        for (auto& p : b) wb += O::winding(mid, dblPath(p)).w;
        if (wa != wb) return false;
      }
    return true;
  }
  O::Samples S = O::faceSamples(O::segsOf(all), 0.5L);
  for (auto& pt : S.pts) if (O::winding(pt, a).w != O::winding(pt, b).w) return false;
  return true;
}

Verdict judgeImpl(const Case& c, bool geo, bool gp) {
  Verdict v;
  // route (chosen per case): -1 Clipper64; p >= 0 ClipperD with precision p.  ClipperD works on the input multiplied by its
  // internal scale (the smallest power of two above 10^p), so the case is judged in that scaled grid: the judged input
  // is the generated input times the scale, ClipperD receives the generated input, its output is multiplied back.
  int dprec = (int)c.I("dprec", -1);
  double dsc = 1;
  if (dprec >= 0) {
    dsc = 2; while (dsc <= std::pow(10.0, dprec)) dsc *= 2;
    int64_t m0 = std::max(O::maxAbs(c.P("subj")), std::max(O::maxAbs(c.P("clip")), O::maxAbs(c.P("open"))));
    if ((double)m0 * dsc > 1e15) { dprec = -1; dsc = 1; }
  }
  auto scaled = [&](const Paths64& pp) { Paths64 r = pp; for (auto& p : r) for (auto& q : p) { q.x *= (int64_t)dsc; q.y *= (int64_t)dsc; } return r; };
  const Paths64 subjS = scaled(c.P("subj")), clipS = scaled(c.P("clip")), openS = scaled(c.P("open"));
  const Paths64& subj = dprec >= 0 ? subjS : c.P("subj");
  const Paths64& clip = dprec >= 0 ? clipS : c.P("clip");
  const Paths64& open = dprec >= 0 ? openS : c.P("open");
  if (dprec >= 0) ST.count("route_ClipperD_precision_" + std::to_string(dprec));
  auto fromD = [&](const PathsD& pp) { Paths64 r; for (auto& p : pp) { Path64 q; for (auto& pt : p) q.emplace_back((int64_t)std::llround(pt.x * dsc), (int64_t)std::llround(pt.y * dsc)); r.push_back(q); } return r; };
  bool viaTree = c.I("viaTree", 0) != 0;   // closed paths obtained by executing into a PolyTree64 / PolyTreeD and flattening it
  if (viaTree) ST.count("route_via_polytree");
  // executes one configuration through the chosen route; closedOnly selects the overload without an open-paths argument
  auto solve = [&](ClipType ct, FillRule fr, bool pc, bool rev, bool closedOnly, Paths64& sol, Paths64& solOpen) {
    if (dprec < 0) {
      Clipper64 cl;
      cl.PreserveCollinear(pc); cl.ReverseSolution(rev);
      cl.AddSubject(subj); cl.AddClip(clip);
      if (!open.empty()) cl.AddOpenSubject(open);
      if (viaTree) {
        PolyTree64 t;
        bool ok = closedOnly ? cl.Execute(ct, fr, t) : cl.Execute(ct, fr, t, solOpen);
        sol = PolyTreeToPaths64(t);
        return ok;
      }
      return closedOnly ? cl.Execute(ct, fr, sol) : cl.Execute(ct, fr, sol, solOpen);
    }
    ClipperD cl(dprec);
    cl.PreserveCollinear(pc); cl.ReverseSolution(rev);
    cl.AddSubject(TransformPaths<double, int64_t>(c.P("subj"))); cl.AddClip(TransformPaths<double, int64_t>(c.P("clip")));
    if (!open.empty()) cl.AddOpenSubject(TransformPaths<double, int64_t>(c.P("open")));
    PathsD s, so;
    bool ok;
    if (viaTree) { PolyTreeD t; ok = closedOnly ? cl.Execute(ct, fr, t) : cl.Execute(ct, fr, t, so); s = PolyTreeToPathsD(t); }
    else ok = closedOnly ? cl.Execute(ct, fr, s) : cl.Execute(ct, fr, s, so);
    sol = fromD(s); solOpen = fromD(so);
    return ok;
  };
  Paths64 all = subj;
  all.insert(all.end(), clip.begin(), clip.end());
  Paths64 allWithOpen = all;
  allWithOpen.insert(allWithOpen.end(), open.begin(), open.end());
  int64_t m = O::maxAbs(allWithOpen);
  if (m > (int64_t(1) << 62)) { v.discard = true; return v; }
  std::vector<O::Seg> segs;
  ld tau = 2.0L + (ld)m * ldexpl(1.0L, -42);
  if (geo) {
    if (m > (int64_t(1) << 59) || all.empty()) { v.discard = true; return v; }
    segs = O::segsOf(all);
    if (gp) {
      for (auto& p : all) if (p.size() < 3) { v.discard = true; return v; }
      if (!O::generalPosition(segs, 3.0L)) { v.discard = true; ST.count("discard_not_general_position"); return v; }
      // KF-C03-b: features as small as 3 units at magnitudes where double rounding (|coord|*2^-42, cf. C01) is
      // of the same order: the engine cannot keep the exact clauses there.  Only the structural clauses are judged.
      ld sep = 3.0L + (ld)m * ldexpl(1.0L, -40);
      if (sep > 3.25L && !O::generalPosition(segs, sep)) {
        v.known = "KF-C03-b";
        ST.count("excluded_tiny_features_at_huge_magnitude");
        geo = false;
      }
    } else {
      for (auto& s : segs) if (s.a.x != s.b.x && s.a.y != s.b.y) { v.discard = true; return v; }
    }
  }
  size_t maxPaths = 0, maxVerts = 0;
  for (ClipType ct : CTS)
    for (FillRule fr : FRS)
      for (int pc = 0; pc < 2; ++pc)
        for (int rev = 0; rev < 2; ++rev) {
          Paths64 sol, solOpen;
          bool ok = solve(ct, fr, pc != 0, rev != 0, false, sol, solOpen);
          v.evals++;
          std::string why;
          if (!ok) { v.fail("Execute returned false" + cfgStr(ct, fr, pc, rev)); return v; }
          bool knownE = false;
          if (!structural(sol, allWithOpen, why, !gp, &knownE)) { v.fail(why + cfgStr(ct, fr, pc, rev)); return v; }
          if (knownE) { v.known = "KF-C03-e"; ST.count("vertex_one_unit_outside_input_bbox"); }
          maxPaths = std::max(maxPaths, sol.size());
          for (auto& p : sol) maxVerts = std::max(maxVerts, p.size());
          if (!open.empty()) {
            // the overloads that return closed paths only, with open subjects loaded: same structural clauses
            Paths64 sol3, none;
            if (!solve(ct, fr, pc != 0, rev != 0, true, sol3, none)) { v.fail("Execute(closed only) returned false" + cfgStr(ct, fr, pc, rev)); return v; }
            if (!structural(sol3, allWithOpen, why, !gp, &knownE)) { v.fail("Execute(ct, fr, closed) with open subjects loaded: " + why + cfgStr(ct, fr, pc, rev)); return v; }
            v.evals++;
          }
          if (!geo) continue;
          if (!geometric(sol, segs, tau, pc != 0, rev != 0, !gp, why, v)) { v.fail(why + cfgStr(ct, fr, pc, rev)); return v; }
          // (f) idempotence under Union
          Clipper64 c2;
          c2.PreserveCollinear(pc != 0);
          c2.ReverseSolution(rev != 0);
          c2.AddSubject(sol);
          Paths64 again;
          c2.Execute(ClipType::Union, rev ? FillRule::Negative : FillRule::Positive, again);
          if (O::canon(again) != O::canon(sol)) {
            if (touching(sol) && sameRegion(sol, again, !gp)) {
              if (v.known.empty()) v.known = "KF-C03-a";   // never hides another class hit by the same case
              ST.count("idempotence_redecomposed_touching_paths_same_region");
            } else {
              v.fail("feeding the solution back through Union changes the set of paths" + cfgStr(ct, fr, pc, rev));
              return v;
            }
          }
        }
  v.nontrivial = maxPaths >= 2 || maxVerts >= 6;
  if (maxPaths >= 2) ST.count("solutions_with_2+_paths");
  return v;
}

Verdict judgeDeg(const Case& c) { return judgeImpl(c, false, false); }
Verdict judgeGp(const Case& c) { return judgeImpl(c, true, true); }
Verdict judgeRect(const Case& c) { return judgeImpl(c, true, false); }

Case genDeg() {
  Case c;
  int cls = (int)G::range(0, 6);
  int64_t M = GEN::magOfClass(cls);
  GEN::DegPool pool;
  c.p["subj"] = GEN::degPaths(4, 12, M, pool);
  c.p["clip"] = GEN::degPaths(4, 12, M, pool);
  if (G::chance(25)) c.p["open"] = GEN::degPaths(2, 6, M, pool);
  ST.count("magclass_" + std::to_string(cls));
  if (G::chance(20)) c.i["dprec"] = G::range(0, 3);
  if (G::chance(25)) c.i["viaTree"] = 1;
  return c;
}
Case genGp() {
  GEN::GpCase g = GEN::gpCase(59);
  ST.count("shape_" + g.shape);
  Case c;
  c.p["subj"] = g.subj;
  c.p["clip"] = g.clip;
  if (G::chance(20)) c.i["dprec"] = G::range(0, 3);
  if (G::chance(25)) c.i["viaTree"] = 1;
  return c;
}
Case genRect() {
  GEN::Lattice L = GEN::lattice();
  if (L.ox > (int64_t(1) << 58) || L.ox < -(int64_t(1) << 58)) L.ox /= 4;
  if (L.oy > (int64_t(1) << 58) || L.oy < -(int64_t(1) << 58)) L.oy /= 4;
  if (L.step * L.g > (int64_t(1) << 57)) L.step /= 4;
  Case c;
  c.p["subj"] = GEN::rectPaths(L, 1, 3);
  c.p["clip"] = GEN::rectPaths(L, 0, 3);
  if (G::chance(20)) c.i["dprec"] = G::range(0, 3);
  if (G::chance(25)) c.i["viaTree"] = 1;
  return c;
}

// exhaustive strict scope: every ordered pair of rectangles of a 4x4-cell lattice (both orientations) as subject and clip,
// plus every triple (third rectangle as second subject) of the 3x3-cell lattice.  The unchanged tree shows none of the
// listed deviation classes here, so in this scope a hit of a recogniser is a failure, not a known finding.
void enumRectPairs(const std::function<void(const Case&)>& f) {
  auto rectsOf = [](int N, bool bothOrient) {
    Paths64 rects;
    for (int x0 = 0; x0 <= N; ++x0) for (int x1 = x0 + 1; x1 <= N; ++x1)
      for (int y0 = 0; y0 <= N; ++y0) for (int y1 = y0 + 1; y1 <= N; ++y1) {
        Path64 p = {Point64(2 * x0, 2 * y0), Point64(2 * x1, 2 * y0), Point64(2 * x1, 2 * y1), Point64(2 * x0, 2 * y1)};
        rects.push_back(p);
        if (bothOrient) { std::reverse(p.begin(), p.end()); rects.push_back(p); }
      }
    return rects;
  };
  Paths64 r4 = rectsOf(4, true);
  for (auto& a : r4) for (auto& b : r4) { Case c; c.p["subj"] = {a}; c.p["clip"] = {b}; f(c); }
  Paths64 r3 = rectsOf(3, false);
  for (auto& a : r3) for (auto& b : r3) for (auto& d : r3) { Case c; c.p["subj"] = {a, d}; c.p["clip"] = {b}; f(c); }
}
Verdict judgeStrictRect(const Case& c) {
  Verdict v = judgeImpl(c, true, false);
  // (KF-C03-a, the re-decomposition of touching paths by a second Union, already occurs with two plain rectangles)
  if (v.ok && !v.known.empty() && v.known != "KF-C03-a") v.fail("a deviation of class " + v.known + " occurred inside the strictly judged exhaustive scope (the unchanged tree shows none there)");
  return v;
}

}  // namespace

int main(int argc, char** argv) {
  Harness H;
  H.property = "C03";
  H.parts.push_back({"deg", genDeg, judgeDeg, nullptr, true});
  H.parts.push_back({"gp", genGp, judgeGp, nullptr, true});
  H.parts.push_back({"rect", genRect, judgeRect, nullptr, true});
  H.parts.push_back({"rectpairs", nullptr, judgeStrictRect, enumRectPairs, false});
  return harnessMain(argc, argv, H);
}
