#!/usr/bin/env python3
"""check.py <PROPERTY-ID> <quick|thorough> [--replay FILE]

Single entry point for every registered check.  Builds the harness for the
property from the current working tree of $VERIF_REPO (default /repo), runs the
replay tier, then the generated search (rapidcheck workers / exhaustive
enumerations / libFuzzer campaigns), merges the counters into
evidence/<ID>.json and reports:

  exit 0                                           property held on everything explored
  exit 1 + "VIOLATION property=<id> replay=<path>" a reproducible violation
  "KNOWN-FINDING: property=<id> <what>"            for every listed open finding
"""
import glob
import hashlib
import json
import os
import shutil
import signal
import subprocess
import sys
import tempfile
import time

VERIF = os.path.dirname(os.path.abspath(__file__))
sys.path.insert(0, VERIF)
import build  # noqa: E402
from props import PROPS  # noqa: E402

NCPU = os.cpu_count() or 4


def seed_for(base, part, idx):
    h = hashlib.sha256(("%d/%s/%d" % (base, part, idx)).encode()).digest()
    return (int.from_bytes(h[:8], "big") >> 1) or 1


def load_known(pid):
    with open(os.path.join(VERIF, "known_findings.json")) as f:
        kf = json.load(f)
    return [e for e in kf.get("findings", []) if e["property"] == pid and e.get("status", "open") == "open"]


def run_replay(binary, path, env=None, timeout=600):
    """returns (status, text): status in pass|fail|known|crash|timeout|discard"""
    try:
        with open(path) as f:
            meta = json.load(f)
    except Exception:
        meta = {}
    if "fuzz_input_hex" in meta:     # a raw libFuzzer input wrapped in JSON
        from fuzz import run_fuzz_input
        st, rep, cpu = run_fuzz_input(binary, bytes.fromhex(meta["fuzz_input_hex"]), env, min(timeout, 90))
        return st, rep
    try:
        r = subprocess.run([binary, "--replay", path], stdout=subprocess.PIPE, stderr=subprocess.STDOUT,
                           text=True, timeout=timeout, env=env)
    except subprocess.TimeoutExpired:
        return "timeout", ""
    out = r.stdout
    if r.returncode == 0:
        return ("discard" if "REPLAY discard" in out else "pass"), out
    if r.returncode == 1 and "REPLAY FAIL" in out:
        return "fail", out
    if r.returncode == 4:
        return "known", out
    return "crash", out[-4000:]


def sanitizer_env():
    env = dict(os.environ)
    env["ASAN_OPTIONS"] = "detect_leaks=1:abort_on_error=0:exitcode=77:allocator_may_return_null=1:detect_stack_use_after_return=0"
    env["UBSAN_OPTIONS"] = "print_stacktrace=1:halt_on_error=1:exitcode=77"
    env["TSAN_OPTIONS"] = "halt_on_error=1:exitcode=66:second_deadlock_stack=1"
    return env


class Runner:
    def __init__(self, pid, tier, base_seed):
        self.pid, self.tier, self.seed = pid, tier, base_seed
        self.cfg = PROPS[pid]
        self.t0 = time.time()
        self.violations = []      # (replay path, why)
        self.unreproduced = []
        self.known_hits = {}
        self.notes = []
        self.log = []
        self.work = tempfile.mkdtemp(prefix="verif-%s-" % pid, dir=os.environ.get("VERIF_TMP", "/var/tmp"))
        self.out_root = os.environ.get("VERIF_OUT", VERIF)   # self-test runs redirect evidence/found elsewhere
        self.found_dir = os.path.join(self.out_root, "found", pid)
        self.env = sanitizer_env()
        # rapidcheck's deep, ever-changing call stacks make ASan's stack depot and quarantine grow by ~100 KB per case
        # (16 GB per worker in a thorough run): bound both for the rapidcheck workers (fuzz.py keeps the defaults)
        self.env["ASAN_OPTIONS"] += ":quarantine_size_mb=32:malloc_context_size=6"
        extra = self.cfg.get("env", {}).get("ASAN_OPTIONS_EXTRA")
        if extra:   # options for the rapidcheck binaries of this property (fuzz.py sets its own)
            self.env["ASAN_OPTIONS"] += ":" + extra

    # -- build -------------------------------------------------------------
    def build_all(self):
        self.bins = {}
        for name, b in self.cfg["bins"].items():
            self.bins[name] = build.build_bin(
                "%s-%s" % (self.pid, name), b.get("tc", "gcc"), b["src"], tuple(b.get("variants", ["plain"])),
                tuple(b.get("shims", [])), tuple(b.get("extra_srcs", [])), tuple(b.get("flags", [])),
                tuple(b.get("libs", ["-lrapidcheck", "-lpthread"])), self.log)

    # -- crash triage ------------------------------------------------------
    def triage_crash(self, pr, candidate):
        """A worker died on `candidate`.  Replay it under an ASan/UBSan build of the same harness and compare the
        report's signature (kind + innermost library frames) with the listed signature findings of this property.
        Returns the finding id, or None (then the crash goes through the normal confirmation and is a VIOLATION)."""
        sigs = [e for e in load_known(self.pid) if e.get("kind") == "signature"]
        if not sigs:
            return None
        from fuzz import signature
        b = self.cfg["bins"][pr["binkey"]]
        tc = b.get("tc", "gcc")
        binary = pr["binary"]
        if tc not in ("asan", "fuzz", "fuzzbig"):
            binary = build.build_bin("%s-%s-asan" % (self.pid, pr["binkey"]), "asan", b["src"], tuple(b.get("variants", ["plain"])),
                                     tuple(b.get("shims", [])), tuple(b.get("extra_srcs", [])), tuple(b.get("flags", [])),
                                     tuple(b.get("libs", ["-lrapidcheck", "-lpthread"])), self.log)
        st, out = run_replay(binary, candidate, self.env, 120)
        if st != "crash":
            return None
        import re
        sig = signature(out)
        for e in sigs:
            if all(re.search(rx, sig + "\n" + out) for rx in e["match"]):
                return e["id"]
        return None

    # -- violation bookkeeping --------------------------------------------
    def confirm(self, binary, candidate, why, accept=("fail", "crash", "timeout"), timeout=120, binkey=None):
        """Replay a candidate 3x in fresh processes; only a reproducible failure is a violation."""
        if len(self.violations) >= 3:   # enough replays to act on; do not spend minutes confirming more
            self.extra_failures = getattr(self, "extra_failures", 0) + 1
            return False
        os.makedirs(self.found_dir, exist_ok=True)
        with open(candidate, "rb") as f:
            data = f.read()
        dest = os.path.join(self.found_dir, hashlib.sha256(data).hexdigest()[:16] + ".json")
        try:
            obj = json.loads(data)
            if "case" not in obj:
                obj = {"property": self.pid, "why": why, "case": obj}
            if binkey:
                obj["bin"] = binkey
            with open(dest, "w") as f:
                json.dump(obj, f)
        except Exception:
            shutil.copyfile(candidate, dest)
        from concurrent.futures import ThreadPoolExecutor
        with ThreadPoolExecutor(3) as ex:
            res = list(ex.map(lambda _: run_replay(binary, dest, self.env, timeout), range(3)))
        if all(r[0] in accept for r in res) or (self.cfg.get("replay_any") and any(r[0] in accept for r in res)):
            detail = res[0][1].strip().splitlines()
            self.violations.append((dest, why or (detail[-1] if detail else "")))
            return True
        self.unreproduced.append({"replay": dest, "why": why, "replays": [r[0] for r in res]})
        return False

    # -- replay tier --------------------------------------------------------
    def replay_tier(self):
        from concurrent.futures import ThreadPoolExecutor
        default_bin = next(iter(self.bins.values()))
        jobs = []
        for path in sorted(glob.glob(os.path.join(VERIF, "replays", self.pid, "*.json"))):
            with open(path) as f:
                meta = json.load(f)
            jobs.append((path, self.bins.get(meta.get("bin", ""), default_bin), meta.get("expect", "pass")))
        with ThreadPoolExecutor(NCPU) as ex:
            outs = list(ex.map(lambda j: run_replay(j[1], j[0], self.env, 60), jobs))
        for (path, binary, expect), (st, out) in zip(jobs, outs):
            last = out.strip().splitlines()[-1] if out.strip() else ""
            if st == "timeout":
                self.violations.append((path, "replayed case did not return within 60 s (normal: milliseconds)"))
            elif expect.startswith("known:"):     # a listed finding: expected to fail still
                kid = expect.split(":", 1)[1]
                if st in ("fail", "crash", "known"):
                    self.known_hits[kid] = self.known_hits.get(kid, 0) + 1
                else:
                    self.notes.append("known finding %s no longer reproduces on %s" % (kid, os.path.basename(path)))
            elif st in ("fail", "crash"):
                res = [run_replay(binary, path, self.env, 60)[0] for _ in range(2)]
                if all(r in ("fail", "crash") for r in res):
                    self.violations.append((path, "regression case fails: " + (last or "crash")))
            elif st == "known":
                kid = last.split()[-1]
                self.known_hits[kid] = self.known_hits.get(kid, 0) + 1
        return len(jobs)

    # -- generated search -----------------------------------------------------
    def spawn(self, part, binkey, w, gen):
        """Start worker w of a part; gen > 0 is a restart after a crash in a listed crash class (fresh seed)."""
        tier = self.tier
        binary = self.bins[binkey]
        pname = part.get("part", part["name"])     # harness-side part name (several bins may share it)
        workers = part["workers"][tier]
        tag = "%s.%d" % (part["name"], w) + (".r%d" % gen if gen else "")
        out = os.path.join(self.work, tag + ".out.json")
        scratch = os.path.join(self.work, tag + ".scratch.json")
        fail = os.path.join(self.work, tag + ".fail.json")
        env = dict(self.env)
        if part.get("kind") == "enum":
            cmd = [binary, "--enumerate", "--part", pname, "--shard", "%d/%d" % (w, workers),
                   "--out", out, "--fail", fail]
        else:
            s = seed_for(self.seed, part["name"], w + 1000 * gen)
            env["RC_PARAMS"] = "seed=%d max_success=%d max_size=%d max_discard_ratio=1000" % (
                s, part["cases"][tier], part.get("max_size", 100))
            cmd = [binary, "--run", "--part", pname, "--out", out, "--scratch", scratch, "--fail", fail]
        logf = open(os.path.join(self.work, tag + ".log"), "w")
        p = subprocess.Popen(cmd, stdout=logf, stderr=subprocess.STDOUT, env=env)
        return dict(p=p, part=part, tag=tag, out=out, scratch=scratch, fail=fail, binary=binary, binkey=binkey,
                    log=logf.name, w=w, gen=gen)

    def run_parts(self):
        procs = []
        tier = self.tier
        for part in self.cfg["parts"]:
            if part.get("kind") == "fuzz":
                continue
            binkey = part.get("bin", next(iter(self.bins)))
            workers = part["workers"][tier]
            if workers <= 0:
                continue
            for w in range(workers):
                procs.append(self.spawn(part, binkey, w, 0))
        budget = self.cfg.get("timeout", {}).get(tier, 900 if tier == "quick" else 7200)
        deadline = time.time() + budget
        hang_s = self.cfg.get("hang_s", 60)
        pending = list(procs)
        results = []
        while pending:
            time.sleep(0.5)
            now = time.time()
            for pr in list(pending):
                rc = pr["p"].poll()
                if rc is None:
                    stuck = False
                    try:
                        if pr["part"].get("kind") != "enum" and os.path.getsize(pr["scratch"]) > 0:
                            stuck = now - os.path.getmtime(pr["scratch"]) > hang_s
                    except OSError:
                        pass
                    if stuck:
                        pr["p"].kill()
                        pr["p"].wait()
                        rc = "hang"
                    elif now > deadline:
                        pr["p"].kill()
                        pr["p"].wait()
                        rc = "timeout"
                    else:
                        continue
                pr["rc"] = rc
                pending.remove(pr)
                results.append(pr)
                # a worker that died in a listed crash class is restarted with a fresh seed (at most 3 times), so the
                # rest of its budget is still explored; the crash itself is counted in digest()
                if isinstance(rc, int) and rc not in (0, 1, 3) and pr["part"].get("kind") != "enum" and pr["gen"] < 3 \
                        and now < deadline and os.path.exists(pr["scratch"]) and os.path.getsize(pr["scratch"]) > 0:
                    kid = self.triage_crash(pr, pr["scratch"])
                    pr["kid"] = kid or ""
                    if kid:
                        pending.append(self.spawn(pr["part"], pr["binkey"], pr["w"], pr["gen"] + 1))
        return results

    def digest(self, results):
        agg = dict(cases=0, discards=0, evaluations=0, nontrivial=0, counters={}, known={}, samples=[], parts={},
                   hashes=set(), exhaustive_scopes=[], inconclusive=[])
        for pr in results:
            rc = pr["rc"]
            name = pr["part"]["name"]
            st = None
            if os.path.exists(pr["out"]):
                try:
                    with open(pr["out"]) as f:
                        st = json.load(f)
                except Exception:
                    st = None
            if st:
                pa = agg["parts"].setdefault(name, dict(cases=0, discards=0, evaluations=0, nontrivial=0, workers=0))
                pa["workers"] += 1
                for k in ("cases", "discards", "evaluations", "nontrivial"):
                    agg[k] += st[k]
                    pa[k] += st[k]
                for k, v in st["counters"].items():
                    agg["counters"][k] = agg["counters"].get(k, 0) + v
                for k, v in st["known"].items():
                    agg["known"][k] = agg["known"].get(k, 0) + v
                agg["hashes"].update(st["nt_hashes"])
                if len(agg["samples"]) < 6:
                    agg["samples"].extend(st["samples"][:2])
                if st["mode"] == "enum":
                    agg["exhaustive_scopes"].append(dict(part=name, shard=pr["tag"], cases=st["cases"], complete=bool(st["exhaustive"])))
            if rc == 0:
                continue
            if rc == "timeout":
                agg["inconclusive"].append("%s: wall-clock budget reached (not a violation)" % pr["tag"])
                continue
            if rc == "hang":
                # one case has been running for > hang_s seconds (normal: milliseconds): confirm by replay
                self.confirm(pr["binary"], pr["scratch"], "operation did not return within the hang limit",
                             accept=("timeout",), timeout=self.cfg.get("hang_s", 60), binkey=pr["binkey"])
                continue
            if rc == 1 and os.path.exists(pr["fail"]):
                with open(pr["fail"]) as f:
                    why = json.load(f).get("why", "")
                self.confirm(pr["binary"], pr["fail"], why, binkey=pr["binkey"])
                continue
            if rc == 3:
                with open(pr["log"]) as f:
                    tail = f.read()[-2000:]
                raise SystemExit("harness error in %s:\n%s" % (pr["tag"], tail))
            # crash / sanitizer abort: the scratch file holds the case that was running
            if os.path.exists(pr["scratch"]) and os.path.getsize(pr["scratch"]) > 0:
                with open(pr["log"]) as f:
                    tail = f.read()[-3000:]
                sig = "crash (exit %s)" % rc
                for line in tail.splitlines():
                    if "ERROR: AddressSanitizer" in line or "runtime error:" in line or "ThreadSanitizer" in line or "Assertion" in line:
                        sig = line.strip()[:300]
                        break
                kid = pr["kid"] if "kid" in pr else self.triage_crash(pr, pr["scratch"])
                if kid:
                    agg["known"][kid] = agg["known"].get(kid, 0) + 1
                    agg["inconclusive"].append("%s: stopped at a case in known crash class %s; %s" % (
                        pr["tag"], kid, "restarted with a fresh seed" if "kid" in pr else "its remaining budget was not explored"))
                    continue
                self.confirm(pr["binary"], pr["scratch"], sig, binkey=pr["binkey"])
            else:
                agg["inconclusive"].append("%s: exited with %s and left no case" % (pr["tag"], rc))
        return agg

    # -- evidence -------------------------------------------------------------
    def write_evidence(self, agg, n_replays, fuzz=None):
        cfg = self.cfg
        cov = dict(
            evaluations=int(agg["evaluations"]),
            distinct_nontrivial=len(agg["hashes"]),
            rule=cfg["rule"],
            samples=agg["samples"][:6],
            cases_generated=agg["cases"],
            discards_outside_domain=agg["discards"],
            nontrivial_cases=agg["nontrivial"],
            per_part=agg["parts"],
            classification=agg["counters"],
            exhaustive=False,
            exhaustive_scopes=agg["exhaustive_scopes"],
            replayed_regression_cases=n_replays,
            known_finding_hits={k: agg["known"].get(k, 0) + self.known_hits.get(k, 0)
                                for k in set(agg["known"]) | set(self.known_hits)},
            unreproduced=self.unreproduced,
            inconclusive=agg["inconclusive"],
            notes=self.notes,
        )
        if fuzz:
            cov["fuzz"] = fuzz
        if agg["exhaustive_scopes"] and all(s["complete"] for s in agg["exhaustive_scopes"]):
            cov["exhaustive_scopes_complete"] = True
        ev = dict(property_id=self.pid, tier=self.tier, seed=self.seed, level=cfg.get("level", "exploration"),
                  coverage=cov, assumptions=cfg.get("assumptions", []), wall_s=round(time.time() - self.t0, 2),
                  violations=len(self.violations),
                  repo_tree=build.tree_hash())
        os.makedirs(os.path.join(self.out_root, "evidence"), exist_ok=True)
        path = os.path.join(self.out_root, "evidence", self.pid + ".json")
        with open(path + ".tmp", "w") as f:
            json.dump(ev, f, indent=1)
        os.replace(path + ".tmp", path)

    def main(self):
        from fuzz import run_fuzz_parts  # local import: only C10/C17/... use it
        self.build_all()
        n_replays = self.replay_tier()
        results = self.run_parts()
        agg = self.digest(results)
        fuzz = run_fuzz_parts(self, agg)
        listed = {e["id"]: e for e in load_known(self.pid)}
        # a class reported by the harness that is not listed is a violation
        for kid in list(agg["known"].keys()) + list(self.known_hits.keys()):
            if kid not in listed:
                self.violations.append(("-", "harness reported unlisted known-finding class " + kid))
        self.write_evidence(agg, n_replays, fuzz)
        for kid, e in listed.items():
            hits = agg["known"].get(kid, 0) + self.known_hits.get(kid, 0)
            print("KNOWN-FINDING: property=%s %s: %s (hits this run: %d)" % (self.pid, kid, e["what"], hits))
        for line in agg["inconclusive"]:
            print("note: " + line)
        for u in self.unreproduced:
            print("note: unreproduced failure kept at %s (%s)" % (u["replay"], u["replays"]))
        print("%s %s: %d cases, %d evaluations, %d distinct non-trivial, %.1fs" % (
            self.pid, self.tier, agg["cases"], agg["evaluations"], len(agg["hashes"]), time.time() - self.t0))
        shutil.rmtree(self.work, ignore_errors=True)
        if self.violations:
            for path, why in self.violations:
                print("VIOLATION property=%s replay=%s  # %s" % (self.pid, path, why))
            return 1
        return 0


def main():
    if len(sys.argv) < 3:
        print(__doc__)
        return 2
    pid, tier = sys.argv[1], sys.argv[2]
    if pid not in PROPS:
        print("unknown property", pid)
        return 2
    if "--replay" in sys.argv:
        path = sys.argv[sys.argv.index("--replay") + 1]
        r = Runner(pid, tier, 0)
        r.build_all()
        with open(path) as f:
            meta = json.load(f)
        binary = r.bins.get(meta.get("bin", ""), next(iter(r.bins.values())))
        st, out = run_replay(binary, path, r.env, 120)
        print(out.strip())
        shutil.rmtree(r.work, ignore_errors=True)
        if st in ("fail", "crash"):
            print("VIOLATION property=%s replay=%s" % (pid, path))
            return 1
        return 0
    seed = int(os.environ.get("VERIF_SEED", "1") or "1")
    tier = os.environ.get("VERIF_TIER", tier) if tier not in ("quick", "thorough") else tier
    return Runner(pid, tier, seed).main()


if __name__ == "__main__":
    sys.exit(main())
