"""Per-property configuration: binaries, parts, budgets, evidence wording."""

Q, T = "quick", "thorough"

PROPS = {
    "C01": dict(
        bins={"main": dict(tc="gcc", src="prop_C01.cpp", variants=["plain", "hp"], shims=["hp"])},
        parts=[dict(name="gp", workers={Q: 16, T: 16}, cases={Q: 1200, T: 30000})],
        rule=("cases = closed subject/clip path sets (random 3-10 vertex paths, nested rings, star polygons {n/k}, doubly "
              "traversed rings, convex pairs, many-short-edge walks; base range 2^10..2^20, optionally scaled by 2^k and "
              "translated up to 2^40 / 2^61 with low-bit jitter) that pass the exact general-position predicate (every "
              "vertex and crossing >= 3 units from every other edge); each case is executed under 4 clip types x 4 fill "
              "rules x PreserveCollinear x ReverseSolution on BOTH the default and the CLIPPER2_HI_PRECISION library and "
              "judged at one integer sample point per face of the input edge arrangement (samples closer than tau = 2 + "
              "max|coord|*2^-42 to an input edge are skipped) by exact __int128 winding numbers: solution winding must be "
              "+1/-1 where the operation selects the point, 0 elsewhere. Non-trivial = at least one proper edge crossing "
              "and both a filled and an empty sample; distinct = distinct hash of the case encoding"
              " Routes: besides Clipper64 and the HI_PRECISION build, each case is also run through the free functions (Intersect/Union/Difference/Xor or BooleanOp) and through staged loading on one object (half the subjects, an Execute, the rest and the clips, Execute); a third of the magnitude-scaled cases keep a pure power-of-two lattice (no low-bit jitter)"),
        assumptions=["oracle: exact integer winding numbers + face sampling; faces narrower than the tolerance band are not judged",
                     "|coordinates| <= 2^61"],
        technique="property-based testing (rapidcheck) against an exact winding-number reference model, two build variants in one binary",
        level_text=("Generated search over general-position inputs x all 64 configurations x both precision builds, judged "
                    "by an independent exact winding oracle at one sample per arrangement face. Exploration only."),
        level_note="trusts the __int128 winding/sampling oracle (oracle.hpp), g++, rapidcheck",
    ),
    "C03": dict(
        bins={"main": dict(tc="gcc", src="prop_C03.cpp", variants=["plain"])},
        parts=[
            dict(name="deg", workers={Q: 5, T: 5}, cases={Q: 20000, T: 400000}),
            dict(name="gp", workers={Q: 7, T: 7}, cases={Q: 5000, T: 100000}),
            dict(name="rect", workers={Q: 3, T: 3}, cases={Q: 8000, T: 160000}),
            dict(name="rectpairs", kind="enum", workers={Q: 2, T: 2}),
        ],
        rule=("three generators: (deg) arbitrary degenerate subject/clip/open path sets in magnitude classes 8..2^62 - "
              "structural clauses only (>=3 vertices, no equal consecutive vertices, vertices inside the input bounding box "
              "for |coord|<=2^52); (gp) general-position sets and (rect) rectilinear walks on any lattice - additionally exact "
              "checks of non-zero area, no 180-degree spike, no properly crossing solution edges, orientation parity by "
              "nesting depth (exact winding at doubled edge midpoints), no collinear triple with PreserveCollinear off, "
              "every vertex within tolerance of an input edge, and Union idempotence. Every case runs 4 clip types x 4 fill "
              "rules x PreserveCollinear x ReverseSolution. Non-trivial = some solution has >=2 paths or a path with >=6 vertices"
              " Routes: 20% of the cases go through ClipperD at precision 0..3 (judged in ClipperD's internal grid), 25% take the closed paths from a PolyTree64/PolyTreeD and flatten it; with open subjects loaded the structural clauses are also applied to the closed-only Execute overload"
              " Exhaustive strict scope (rectpairs): every ordered pair of rectangles of a 4x4-cell lattice in both orientations and every triple of the 3x3-cell lattice (86,656 inputs x 64 configurations); there the unchanged tree shows none of the classes KF-C03-b..e, so a recogniser hit other than KF-C03-a (which already occurs with two rectangles) is reported as a violation."),
        assumptions=["geometric clauses judged for |coord| <= 2^59 (doubled coordinates must fit the __int128 predicates)",
                     "idempotence differences that vanish after splitting paths at vertices they visit twice are the listed class KF-C03-a"],
        technique="property-based testing (rapidcheck): exact structural and geometric validity predicates over the solution + Union round-trip",
        level_text=("Generated search over degenerate, general-position and rectilinear inputs x 64 configurations with exact "
                    "validity predicates on every solution and a Union round trip. Exploration only."),
        level_note="trusts the __int128 predicates in oracle.hpp/prop_C03.cpp, g++, rapidcheck",
    ),
    "C04": dict(
        bins={"main": dict(tc="gcc", src="prop_C04.cpp", variants=["plain"])},
        parts=[
            dict(name="gp", workers={Q: 6, T: 6}, cases={Q: 8000, T: 60000}),
            dict(name="rect", workers={Q: 2, T: 2}, cases={Q: 15000, T: 120000}),
            dict(name="rectdistinct", workers={Q: 2, T: 2}, cases={Q: 10000, T: 100000}),
            dict(name="rectplain", workers={Q: 6, T: 6}, cases={Q: 8000, T: 100000}),
            dict(name="nest3", kind="enum", workers={Q: 4, T: 2}),
            dict(name="nest3big", kind="enum", workers={Q: 0, T: 8}),
        ],
        rule=("cases = (gp) general-position path sets, 60% nesting-heavy (stacks of 3-7 nested rings of alternating or "
              "equal orientation, second stacks, nested/random clips), 25% with open subject polylines; (rect) rectilinear "
              "walks on lattices of even step >= 2 (touching holes, polygons split/merged by horizontal joins); (rectdistinct) rectangles with pairwise distinct coordinates (horizontal-edge machinery without coincidences); (rectplain) 2-6 plain rectangles on a small lattice; (nest3, exhaustive) an enclosing square plus every combination of three rectangles of the interior 4x4-cell lattice of step 2, the third as subject or as clip (32,412 inputs), judged strictly: no mismatch in this scope is attributed to KF-C04-a (thorough adds nest3big, the 5x5-cell lattice with 757,500 inputs, judged like rectplain because KF-C04-a occurs there, e.g. square (0,0)-(12,12) + (2,2)-(8,6) + (4,2)-(6,4) + (4,2)-(10,4), Union EvenOdd). Each case runs "
              "64 configurations on Clipper64 -> Paths64 and -> PolyTree64, and on ClipperD -> PathsD / PolyTreeD. Oracle: "
              "tree paths == paths result as canonical sets, open outputs equal, every node strictly inside its parent and "
              "outside its siblings (exact winding at doubled edge midpoints), orientation alternates with level (negated by "
              "ReverseSolution), tree.Area() == paths area. Non-trivial = tree depth >= 2 (a hole); the depth histogram is in "
              "classification"
              " Routes: one PolyTree64 and one PolyTreeD object are shared by all 64 configurations of a case (Execute must replace their content) and the ClipperD precision alternates between 0 and a per-case value 0..4; the free functions BooleanOp(...,PolyTree64&) and BooleanOp(...,PolyTreeD&,precision) are compared with their Paths counterparts"),
        assumptions=["|coord| <= 2^59 (2^50 for the ClipperD half)", "general position taken at separation 3 + max|coord|*2^-40 (cf. KF-C03-b)"],
        technique="property-based testing (rapidcheck): differential Paths-vs-PolyTree execution + exact nesting/orientation oracle",
        level_text=("Generated search with nesting-heavy generators over 64 configurations, both PolyTree64 and PolyTreeD, "
                    "with an exact containment oracle. Exploration only."),
        level_note="trusts oracle.hpp winding/midpoint containment, g++, rapidcheck",
    ),
    "C13": dict(
        bins={"main": dict(tc="gcc", src="prop_C13.cpp", variants=["plain", "hp"], shims=["hp"])},
        parts=[dict(name="gp", workers={Q: 11, T: 11}, cases={Q: 500, T: 16000}),
               dict(name="exact", workers={Q: 5, T: 5}, cases={Q: 6000, T: 200000})],
        rule=("cases = general-position closed path sets (|coord| <= 2^40) plus transformation parameters (permutation, "
              "rotation and duplication seeds, translation vector, scale 2..7, one of translate/transpose/mirror/scale); for "
              "every clip type x fill rule x PreserveCollinear x ReverseSolution on the default and the HI_PRECISION library: "
              "EXACT canonical equality under path permutation, start-vertex rotation, duplicate/closing vertex insertion and "
              "subject/clip swap (Intersection, Union, Xor); REGION equality (exact winding at one sample per arrangement "
              "face outside the tolerance band) under reversal of all paths (Positive<->Negative), the geometric "
              "transformation (Positive<->Negative for transpose/mirror), Xor = Union - Intersection, and Difference + "
              "Intersection = filled subject. Non-trivial = at least one proper crossing and a representation variant that "
              "differs from the original"),
        assumptions=["general position at separation 3 + max|coord|*2^-40", "samples farther than 2 + max|coord|*2^-42 from every input edge"],
        technique="property-based testing (rapidcheck): metamorphic relations (exact and region equality) on two build variants",
        level_text=("Generated search; each case checks 4 exact and 4 region metamorphic relations under all 64 configurations "
                    "on both precision builds. Exploration only."),
        level_note="trusts canonicalisation + exact winding oracle in oracle.hpp, g++, rapidcheck",
    ),
    "C05": dict(
        bins={"main": dict(tc="gcc", src="prop_C05.cpp", variants=["plain"])},
        parts=[dict(name="gp", workers={Q: 16, T: 16}, cases={Q: 12000, T: 150000})],
        rule=("cases = 1-3 open polylines (2-8 vertices) over closed subject/clip sets, all in general position (every "
              "vertex and crossing >= 3 units from every other edge, open ones included), |coord| <= 2^32; each case runs 4 "
              "clip types x 4 fill rules x {paths, polytree}. Reference: every open segment is cut at its exact crossings "
              "with closed edges; the midpoint of every sub-interval longer than 6 units is classified by winding numbers "
              "(inside clip for Intersection, outside clip for Difference/Xor, outside subject and clip regions for Union). "
              "Checked: locality of every solution segment (1.5 units), coverage both ways at the midpoints, total length "
              "within 3 units per crossing, closed-solution region unchanged by the open subjects. Non-trivial = an open "
              "segment with >= 2 crossings that has both an inside and an outside interval"
              " Routes: 25% of the cases go through ClipperD at precision 0..3 (judged in its internal grid), 30% with ReverseSolution; clause (iv) is also checked through Execute(ct,fr,closed), Execute(ct,fr,tree) and ClipperD::Execute(ct,fr,closed) with open subjects loaded"),
        assumptions=["|coord| <= 2^32 so that long double classification of non-integer midpoints is exact with margin >= 1e-3",
                     "sub-intervals shorter than 6 units or closer than 1e-3 to an edge are not judged; their length is added to the length tolerance"],
        technique="property-based testing (rapidcheck): exact reference cutting of open segments + winding classification",
        level_text="Generated search against an independent segment-cutting reference under 32 configurations. Exploration only.",
        level_note="trusts the reference cutter in prop_C05.cpp and oracle.hpp, g++, rapidcheck",
    ),
    "C10": dict(
        engine="libFuzzer + rapidcheck",
        level="fault_enumeration",
        bins={
            "main": dict(tc="asan", src="prop_C10.cpp", variants=["plain"]),
            "fuzz_bool": dict(tc="fuzz", src="fuzz_targets.cpp", variants=["plain"], flags=["-DFUZZ_TARGET=1"], libs=[]),
            "fuzz_bool_z": dict(tc="fuzz", src="fuzz_targets.cpp", variants=["z"], flags=["-DFUZZ_TARGET=1"], libs=[]),
            "fuzz_bool_big": dict(tc="fuzzbig", src="fuzz_targets.cpp", variants=["plain"], flags=["-DFUZZ_TARGET=1", "-DFUZZ_BIG"], libs=[]),
            "fuzz_offset": dict(tc="fuzz", src="fuzz_targets.cpp", variants=["plain"], flags=["-DFUZZ_TARGET=2"], libs=[]),
            "fuzz_offset_z": dict(tc="fuzz", src="fuzz_targets.cpp", variants=["z"], flags=["-DFUZZ_TARGET=2"], libs=[]),
            "fuzz_offset_big": dict(tc="fuzzbig", src="fuzz_targets.cpp", variants=["plain"], flags=["-DFUZZ_TARGET=2", "-DFUZZ_BIG"], libs=[]),
            "fuzz_rect": dict(tc="fuzz", src="fuzz_targets.cpp", variants=["plain"], flags=["-DFUZZ_TARGET=3"], libs=[]),
            "fuzz_rect_big": dict(tc="fuzzbig", src="fuzz_targets.cpp", variants=["plain"], flags=["-DFUZZ_TARGET=3", "-DFUZZ_BIG"], libs=[]),
            "fuzz_rect_z": dict(tc="fuzz", src="fuzz_targets.cpp", variants=["z"], flags=["-DFUZZ_TARGET=3"], libs=[]),
            "fuzz_misc_z": dict(tc="fuzz", src="fuzz_targets.cpp", variants=["z"], flags=["-DFUZZ_TARGET=4"], libs=[]),
            "fuzz_misc": dict(tc="fuzz", src="fuzz_targets.cpp", variants=["plain"], flags=["-DFUZZ_TARGET=4"], libs=[]),
            "fuzz_misc_big": dict(tc="fuzzbig", src="fuzz_targets.cpp", variants=["plain"], flags=["-DFUZZ_TARGET=4", "-DFUZZ_BIG"], libs=[]),
            "fuzz_export": dict(tc="fuzz", src="fuzz_targets.cpp", variants=["plain"], flags=["-DFUZZ_TARGET=5"], libs=[]),
            "fuzz_export_z": dict(tc="fuzz", src="fuzz_targets.cpp", variants=["z"], flags=["-DFUZZ_TARGET=5"], libs=[]),
        },
        parts=[
            dict(name="deg", bin="main", workers={Q: 2, T: 2}, cases={Q: 6000, T: 200000}),
            dict(name="allocfail", bin="main", workers={Q: 2, T: 3}, cases={Q: 300, T: 3000}),
            dict(name="allocfail_tree", bin="main", workers={Q: 2, T: 3}, cases={Q: 4000, T: 40000}),
            dict(name="fuzz_bool", kind="fuzz", bin="fuzz_bool", workers={Q: 2, T: 2}, seconds={Q: 45, T: 900}),
            dict(name="fuzz_bool_z", kind="fuzz", bin="fuzz_bool_z", corpus="fuzz_bool", workers={Q: 1, T: 1}, seconds={Q: 45, T: 900}),
            dict(name="fuzz_bool_big", kind="fuzz", bin="fuzz_bool_big", corpus="fuzz_bool", workers={Q: 2, T: 2}, seconds={Q: 45, T: 900}),
            dict(name="fuzz_offset", kind="fuzz", bin="fuzz_offset", workers={Q: 1, T: 1}, seconds={Q: 45, T: 900}),
            dict(name="fuzz_offset_z", kind="fuzz", bin="fuzz_offset_z", corpus="fuzz_offset", workers={Q: 1, T: 1}, seconds={Q: 45, T: 900}),
            dict(name="fuzz_offset_big", kind="fuzz", bin="fuzz_offset_big", corpus="fuzz_offset", workers={Q: 1, T: 1}, seconds={Q: 45, T: 900}),
            dict(name="fuzz_rect", kind="fuzz", bin="fuzz_rect", workers={Q: 1, T: 1}, seconds={Q: 45, T: 900}),
            dict(name="fuzz_rect_big", kind="fuzz", bin="fuzz_rect_big", corpus="fuzz_rect", workers={Q: 1, T: 1}, seconds={Q: 45, T: 900}),
            dict(name="fuzz_rect_z", kind="fuzz", bin="fuzz_rect_z", corpus="fuzz_rect", workers={Q: 1, T: 1}, seconds={Q: 45, T: 900}),
            dict(name="fuzz_misc_z", kind="fuzz", bin="fuzz_misc_z", corpus="fuzz_misc", workers={Q: 1, T: 1}, seconds={Q: 45, T: 900}),
            dict(name="fuzz_misc", kind="fuzz", bin="fuzz_misc", workers={Q: 1, T: 1}, seconds={Q: 45, T: 900}),
            dict(name="fuzz_misc_big", kind="fuzz", bin="fuzz_misc_big", corpus="fuzz_misc", workers={Q: 1, T: 1}, seconds={Q: 45, T: 900}),
            dict(name="fuzz_export", kind="fuzz", bin="fuzz_export", workers={Q: 1, T: 1}, seconds={Q: 45, T: 900}),
            dict(name="fuzz_export_z", kind="fuzz", bin="fuzz_export_z", corpus="fuzz_export", workers={Q: 1, T: 1}, seconds={Q: 45, T: 900}),
        ],
        rule=("(a) coverage-guided libFuzzer campaigns (ASan+UBSan+LSan, libstdc++ assertions and vector annotations) over "
              "structure-aware decoders for boolean clipping (Clipper64/ClipperD, paths/polytree, open paths, options, Clear, "
              "ReuseableDataContainer64; plain, USINGZ and a build for magnitudes up to 2^62 without the overflow checks), "
              "offsetting (groups, all join/end types, delta callback, polytree, reuse), rectangle clipping, "
              "Minkowski/utilities and the 14 C export functions (exact-length input blocks, returned arrays walked to their "
              "stated length and released with DisposeArray*; plain and USINGZ), with the structural/Execute-success/NoClip oracles inside the targets; evaluations = "
              "executions, non-trivial = a corpus unit (coverage-distinct input) that produced a non-empty result; (b) "
              "rapidcheck over degenerate structured inputs through 12 operation families; (c) allocation-failure "
              "enumeration: for each generated small case the k-th allocation inside the operation throws std::bad_alloc "
              "for EVERY k (400 stratified k when an operation allocates more than 400 times; a second part concentrates on PolyTree execution of "
              "tiny-grid / rectilinear inputs where joins and splits re-link rings between allocations) - the exception must reach "
              "the caller and all objects must destruct cleanly under ASan; non-trivial = operation with >= 10 allocations"),
        assumptions=["NaN/inf parameters, |delta| > 2^20 and coordinates beyond the stated magnitudes are not generated",
                     "signed-overflow/float-cast checks are off in the *_big builds (the property promises overflow-free arithmetic only up to 2^29)",
                     "leaks on the allocation-failure path are not judged (LSan off in the injector binary)",
                     "a hang is > 60 s CPU on an input of <= 600 bytes, confirmed 3 times; slow-unit/oom artifacts are load noise"],
        technique="coverage-guided fuzzing (libFuzzer + ASan/UBSan/LSan) with semantic oracles in the targets + rapidcheck + exhaustive single-allocation-failure injection",
        level_text=("Fuzzing and fault enumeration: every single allocation point of each generated operation is failed once "
                    "(fault_enumeration for the bad_alloc clause); the rest is sanitizer-backed coverage-guided exploration."),
        level_note="trusts ASan/UBSan/LSan, libFuzzer, the replaced operator new in prop_C10.cpp",
        env={"ASAN_OPTIONS_EXTRA": "detect_leaks=0:alloc_dealloc_mismatch=0"},
    ),
    "C11": dict(
        bins={"main": dict(tc="gcc", src="prop_C11.cpp", variants=["plain", "ne"], shims=["plain", "ne"])},
        parts=[
            dict(name="report", workers={Q: 8, T: 8}, cases={Q: 200000, T: 3000000}),
            dict(name="cboundary", workers={Q: 6, T: 6}, cases={Q: 100000, T: 1500000}),
            dict(name="success", workers={Q: 2, T: 2}, cases={Q: 150000, T: 3000000}),
        ],
        rule=("(report) 14 argument-validating entry points (ClipperD constructor + AddSubject/AddClip/AddOpenSubject, "
              "BooleanOp/Union/InflatePaths/RectClip/RectClipLines on PathsD, BooleanOp into PolyTreeD, TrimCollinear(PathD), "
              "ScalePath, the two-scale ScalePaths with independent x and y magnitudes, MakePath, MakePathD) x precision -20..20 (biased to +-8/+-9) x coordinate magnitudes from 1e-12 to 100 "
              "times the range boundary MAX_COORD/scale x zero/non-zero scale x odd/even value counts, each executed on a "
              "build WITH exceptions (Clipper2Exception expected iff an argument is invalid) and on a -fno-exceptions build "
              "linked into the same binary (error code bit and empty result expected); (cboundary) the eight exported "
              "functions that validate enums/precision with cliptype 0..255, fillrule 0..255, precision -100..50 on "
              "degenerate inputs: return value -5/-4/-3/0, output pointers untouched on rejection, NoClip gives empty "
              "results, returned arrays well formed; (success) the C++ API's success clause: Clipper64 loaded directly, through "
              "a ReuseableDataContainer64 or mixed, and ClipperD, with degenerate (empty / 1-2 point / horizontal-only / "
              "coincident) or random closed and open paths, every clip type including NoClip (25%), every fill rule, all four "
              "Execute overloads, optionally after a previous Execute or after Clear(): Execute returns true, NoClip and "
              "cleared clippers give empty solutions. The Execute-success clause on arbitrary inputs is additionally checked "
              "inside every libFuzzer target of C10. Non-trivial = an invalid argument, a boundary precision (+-8) or a "
              "coordinate above a quarter of the range"),
        assumptions=["cases within a relative 1e-4 of the coordinate range boundary are not generated (expectation would depend on rounding)",
                     "entry points without a documented range check (TrimCollinear(PathD), ScalePath) are probed only far inside the range"],
        technique="property-based testing (rapidcheck): argument-space generation against a table of expected outcomes, two build variants (with / without C++ exceptions) in one binary",
        level_text="Generated search over the argument space of every validating entry point on both exception configurations. Exploration only.",
        level_note="trusts the expected-outcome table in prop_C11.cpp (derived from the property text), g++, rapidcheck",
    ),
    "C12": dict(
        bins={"main": dict(tc="gcc", src="prop_C12.cpp", variants=["plain"])},
        parts=[
            dict(name="clipper64", workers={Q: 4, T: 4}, cases={Q: 40000, T: 600000}),
            dict(name="clipperD", workers={Q: 2, T: 2}, cases={Q: 40000, T: 600000}),
            dict(name="offset", workers={Q: 3, T: 3}, cases={Q: 25000, T: 400000}),
            dict(name="offset_indep", workers={Q: 3, T: 3}, cases={Q: 25000, T: 400000}),
            dict(name="rect", workers={Q: 1, T: 1}, cases={Q: 60000, T: 900000}),
            dict(name="seq5", kind="enum", workers={Q: 3, T: 3}),
        ],
        rule=("stateful generation: (clipper64/clipperD) sequences of 3-14 operations AddSubject/AddOpenSubject/AddClip/"
              "AddReuseableData/PreserveCollinear/ReverseSolution/Execute-into-paths/Execute-into-tree/Clear over a pool of 4 "
              "path sets (rectilinear, degenerate or random) and 2 shared ReuseableDataContainer64; after EVERY Execute the "
              "used object's result must be bit-identical to (a) a freshly constructed object given the model's paths and "
              "options, (b) a clipper fed the container's paths directly, (c) a second identical Execute; (seq5) EXHAUSTIVE: "
              "all sequences of length <= 5 over a 9-letter alphabet on a fixed pool that contain an Execute; (offset) "
              "sequences of AddPath(s)/MiterLimit/ArcTolerance/PreserveCollinear/ReverseSolution/Execute paths|tree|delta "
              "callback/Clear on one ClipperOffset (pools with polygons, polylines, 1- and 2-point and empty paths) against a "
              "fresh object; (offset_indep) 2-3 items (paths of one group or separate groups with their own join/end types) "
              "placed farther apart than 2(|delta|*factor+3): the joint result must equal the union of the results alone, for "
              "EVERY order; (rect) repeated Execute on one RectClip64/RectClipLines64. Non-trivial = an Execute after an "
              "earlier Execute or Clear (sequences) / non-empty result (independence)"),
        assumptions=["a ReuseableDataContainer64 is attached to one clipper at most once between Clear() calls",
                     "Execute(DeltaCallback64,..) installs the callback permanently by API design: the model treats it as an option",
                     "independence: Polygon-end-type paths of one call have a consistent orientation (documented assumption of ClipperOffset)"],
        technique="stateful property-based testing (rapidcheck): operation sequences against a fresh-object reference model, plus exhaustive enumeration of short sequences",
        level_text=("Model-based stateful search with bit-identical comparison against fresh objects after every Execute; short "
                    "sequences enumerated exhaustively. Exploration only."),
        level_note="trusts only vector equality and the model bookkeeping in prop_C12.cpp, g++, rapidcheck",
    ),
    "C06": dict(
        bins={"main": dict(tc="gcc", src="prop_C06.cpp", variants=["plain"])},
        parts=[dict(name="poly", workers={Q: 16, T: 16}, cases={Q: 1200, T: 60000})],
        rule=("cases = 1-3 disjoint simple polygons, each a star-shaped ring (4-12 vertices, stratified angles) with "
              "recursively nested holes and islands scaled into the measured inradius, either orientation convention, scales "
              "100..1e7, verified exactly to be simple with turning angles >= 10 degrees from reversal; |delta| from the classes "
              "<0.5, 0.5-5, 5-0.3R, 0.3R-2R; miter limit 0-5, arc tolerance 0 or 0.05-3, ReverseSolution; each case is offset "
              "with 4 join types x both signs of delta and judged at ~300-800 integer sample points (jittered grid + probes at "
              "distance |delta|*factor +- (tol+1..4) from edges and vertices) by signed distance to the input region: "
              "Round: covered iff d <= delta-tol / uncovered iff d >= delta+tol; Miter/Square: between the round results for "
              "|delta| and k|delta|; Bevel: between the edge-normal sweep and the round result; coverage value +1/-1 by "
              "orientation and ReverseSolution; |delta|<0.5 leaves the region unchanged. Non-trivial = polygon with a concave "
              "vertex and both covered and uncovered judged samples"
              " Routes: the offset is obtained per case through a fresh ClipperOffset into Paths64, into a PolyTree64 (flattened), through one object executed into a tree first and into paths afterwards, or through InflatePaths"),
        assumptions=["samples are integer points; points inside the tolerance band arc_tol + 2 + 0.001|delta| are not judged",
                     "a mismatch that disappears for all of delta +-0.37, +-0.73 is classified as KF-ENG-a (sub-grid near-touch artefact of the clean-up union)"],
        technique="property-based testing (rapidcheck): signed-distance reference model of the offset region, sampled",
        level_text="Generated search against an independent signed-distance model with per-join-type inner and outer bounds. Exploration only.",
        level_note="trusts the distance/winding oracle (oracle.hpp, offset_oracle.hpp), g++, rapidcheck",
    ),
    "C07": dict(
        bins={"main": dict(tc="gcc", src="prop_C07.cpp", variants=["plain"])},
        parts=[dict(name="stroke", workers={Q: 14, T: 14}, cases={Q: 500, T: 40000}),
               dict(name="point", workers={Q: 2, T: 2}, cases={Q: 3000, T: 100000})],
        rule=("(stroke) mixtures of 1-4 open paths per call (1-point, 2-point and 3-8-point random polylines, self-crossing "
              "allowed, turning angles >= 10 degrees from reversal, edges >= 2 units) placed in disjoint regions farther apart "
              "than 2(|delta|f+tol), scales 100..1e5, |delta| 1..0.4R, miter limit 0-5, arc tolerance 0/0.05-3, ReverseSolution; "
              "each case runs 4 join types x end types Joined/Butt/Square/Round and is judged at ~200-600 integer samples "
              "(grid + probes near the expected outline) by distance to the polylines: inner bound = trimmed per-segment "
              "rectangles of half-width |delta|-tol (+ discs at round joins/ends, cap rectangles at square ends, disc or "
              "square for single points), outer bound = |delta| x max(join factor, cap factor) + tol, and beyond a butt end "
              "nothing unless another segment is near; metamorphic clauses: result(+delta) == result(-delta) exactly, region "
              "independent of path direction; independence from the other (distant) paths of the call is implied by judging "
              "the mixture against the per-path model (and checked exactly for all orders in C12/offset_indep); (point) single "
              "points become a circle of radius |delta| (vertices within tol) or the square of half-side ceil(|delta|), all "
              "join x end types. Non-trivial = mixture with a 2-point and a longer path, or a self-crossing polyline"
              " Routes: as C06, plus route 4: a distant positively oriented round-joined decoy square is added as a separate group BEFORE the paths under test and both +delta and -delta results are judged against the model (exact +/- identity is asserted on the other routes)"),
        assumptions=["|delta| >= 1 (single points are dropped by design below 1)", "points inside the tolerance band are not judged",
                     "a mismatch that disappears for all of |delta| +-0.37, +-0.73 is classified as KF-ENG-a"],
        technique="property-based testing (rapidcheck): distance-based stroke model with inner/outer bounds + metamorphic relations",
        level_text="Generated search against an independent distance model of strokes and caps, plus exact metamorphic clauses. Exploration only.",
        level_note="trusts the stroke model in prop_C07.cpp and oracle.hpp, g++, rapidcheck",
    ),
    "C08": dict(
        bins={"main": dict(tc="gcc", src="prop_C08.cpp", variants=["plain"])},
        parts=[dict(name="rc", workers={Q: 16, T: 16}, cases={Q: 60000, T: 1500000})],
        rule=("cases = a rectangle (extent 30 .. 2^39) and 1-3 closed paths of 3-10 vertices: entirely inside, entirely "
              "outside, enclosing the rectangle or winding around it 1-3 times, or generic paths across it, with 0-60% of the "
              "vertices snapped to a side line, a corner or a point on a side. Per path: result inside the rectangle (1 unit); "
              "new vertices on the boundary (1 unit); at one sample per face of the path+rectangle arrangement farther than 2 "
              "units from the path: more than 1 unit inside the rectangle the result winding equals the input winding for "
              "simple polygons (equal parity for self-intersecting ones without an edge along a side), more than 1 unit "
              "outside nothing is covered; bounds inside => returned unchanged, bounds disjoint => empty; orientation "
              "preserved; clipping several paths in one call == concatenation of the single-path results. Non-trivial = the "
              "path meets the rectangle boundary at least twice"
              " Routes: 35% of the cases go through the RectD/PathsD/PathD overloads at precision 0..4 (input divided by 10^p, result multiplied back, same integer oracle)"),
        assumptions=["exact classification of 'simple' and 'edge along a side' in __int128", "the one-unit band inside each side is not judged (crossing points are truncated, which the statement allows)"],
        technique="property-based testing (rapidcheck): exact winding-number reference restricted to the rectangle",
        level_text="Generated search with side/corner-snapping generators against an exact winding oracle, path by path. Exploration only.",
        level_note="trusts oracle.hpp, g++, rapidcheck",
    ),
    "C09": dict(
        bins={"main": dict(tc="gcc", src="prop_C08.cpp", variants=["plain"], flags=["-DPROP_C09"])},
        parts=[dict(name="rc", workers={Q: 16, T: 16}, cases={Q: 100000, T: 2500000})],
        rule=("cases = a rectangle and 1-3 open polylines of 2-10 vertices (inside, outside, across; 0-60% of vertices snapped "
              "to sides/corners). Reference: Liang-Barsky clipping of every segment against the closed rectangle. Checked: "
              "every result vertex within 1 unit of the rectangle and 1.5 units of the polyline; pieces in input order and "
              "direction (non-decreasing arc-length parameter, 2 units slack); total length == exact inside length within 2 "
              "units per crossing (segments lying along a side are optional: their length widens the tolerance); midpoints "
              "of inside intervals (> 4 units) are covered, midpoints of outside intervals more than 2 units from the "
              "rectangle are not; batch == concatenation. Non-trivial = at least 2 boundary crossings"
              " Routes: 35% of the cases go through the RectD/PathsD/PathD overloads at precision 0..4 (input divided by 10^p, result multiplied back, same integer oracle)"),
        assumptions=["polylines with repeated consecutive points are skipped (counted)", "|coord| <= 2^40"],
        technique="property-based testing (rapidcheck): differential against an exact Liang-Barsky reference",
        level_text="Generated search against an independent segment clipper, including order/direction. Exploration only.",
        level_note="trusts the Liang-Barsky reference in prop_C08.cpp, g++, rapidcheck",
    ),
    "C18": dict(
        bins={"main": dict(tc="gcc", src="prop_C18.cpp", variants=["plain", "hp"], shims=["hp"], extra_srcs=["port_core.cpp"])},
        parts=[
            dict(name="pred", workers={Q: 6, T: 6}, cases={Q: 60000, T: 3000000}),
            dict(name="pip", workers={Q: 4, T: 4}, cases={Q: 60000, T: 3000000}),
            dict(name="segint", workers={Q: 4, T: 4}, cases={Q: 150000, T: 6000000}),
            dict(name="area", workers={Q: 2, T: 2}, cases={Q: 100000, T: 4000000}),
        ],
        rule=("(pred) boundary-biased 64-bit values (0, +-1, +-2^31, 2^32+-1, +-2^61, +-(2^62-1), INT64 extremes, random bit "
              "lengths): Multiply on all of uint64 against unsigned __int128; ProductsAreEqual on random and constructed-equal "
              "quadruples; CrossProductSign/IsCollinear on random, permuted, degenerate and exactly-collinear / off-by-one "
              "triples (p, p+kd, p+md) - each on the native __int128 path AND on the portable 64x64 path compiled by "
              "redefining UINTPTR_MAX (port_core.cpp), both against exact __int128 arithmetic; (pip) random / rectilinear / "
              "degenerate polygons up to 2^25 with queries on vertices, on edges, level with vertices and random: exact "
              "on/inside/outside by the even-odd rule; (segint) random, exactly parallel, end-sharing and constructed "
              "crossing segment pairs up to 2^40 on the default and HI_PRECISION builds: parallel <=> exact zero determinant, "
              "crossing point within 1 unit per axis of the exact rational crossing and within 1 unit of segment 1; (area) "
              "Area against the exact shoelace within the floating-point error bound of the summation. Non-trivial = a "
              "product beyond 2^64 / a query on the boundary or level with a vertex / a proper crossing / non-zero area"),
        assumptions=["coordinate differences fit int64 (stated precondition); triples that violate it are skipped",
                     "segment pairs with conditioning K = max|coord| |d1||d2| / |d1 x d2| >= 2^46 (2^50 for the parallel report) are the listed class KF-C18-a"],
        technique="property-based testing (rapidcheck): differential against exact __int128 / rational arithmetic, native and portable code paths",
        level_text="Generated search with boundary-biased generators against exact integer arithmetic on both multiplication code paths and both precision builds. Exploration only.",
        level_note="trusts __int128 arithmetic of the compiler, long double for the rational crossing point, rapidcheck",
    ),
    "C20": dict(
        bins={"main": dict(tc="gcc", src="prop_C20.cpp", variants=["plain"])},
        parts=[
            dict(name="trim", workers={Q: 4, T: 4}, cases={Q: 150000, T: 6000000}),
            dict(name="simplify", workers={Q: 4, T: 4}, cases={Q: 150000, T: 6000000}),
            dict(name="rdp", workers={Q: 4, T: 4}, cases={Q: 150000, T: 6000000}),
            dict(name="misc", workers={Q: 4, T: 4}, cases={Q: 100000, T: 4000000}),
        ],
        rule=("paths of 0-12 points: degenerate (repeated points, shared coordinates, collinear runs, near-duplicates), "
              "random, all-collinear with outliers, and closed loops given with the start repeated at the end; magnitudes "
              "3 .. 2^30; closed and open; epsilon in {0, 0-2, comparable to the features, huge}. TrimCollinear: in-order "
              "subsequence, open end points kept, exact __int128 area preserved for closed paths, and for inputs without "
              "repeated points / reversals exactly the corner vertices, no collinear triple left, idempotent. SimplifyPath "
              "(>= 4 points): subsequence, end points kept, every remaining vertex farther than epsilon from the line "
              "through its neighbours. RamerDouglasPeucker: subsequence, end points kept, every removed vertex within "
              "epsilon of the line through its surviving neighbours. StripDuplicates, StripNearEqual, TranslatePath, Length, "
              "GetBounds, Ellipse against their defining equations. Non-trivial = input of >= 4 points from which some but "
              "not all vertices are removed"
              " Routes: TranslatePath is also checked in its Paths64 and PathD forms"
              " TrimCollinear, SimplifyPath and RamerDouglasPeucker are reached per case through the Path64 function, the PathD overload (same integer-valued input; TrimCollinear with precision 0..3) or the Paths64 wrapper (SimplifyPaths, RamerDouglasPeucker(Paths64)); 1% of the cases are combs of 20-120 teeth, 3% are paths with vertices at exact integer distances 0..3 from a base line with integer epsilon."),
        assumptions=["SimplifyPath's no-removable-vertex clause is judged on inputs of >= 4 points (KF-C20-b)",
                     "StripNearEqual cases where a pair distance equals the threshold to 1e-9 relative are skipped"],
        technique="property-based testing (rapidcheck): contract predicates and defining equations on generated degenerate paths",
        level_text="Generated search over small degenerate paths with exact contract predicates. Exploration only.",
        level_note="trusts the predicates in prop_C20.cpp (exact __int128 / long double), g++, rapidcheck",
    ),
    "C16": dict(
        bins={"main": dict(tc="gcc", src="prop_C16.cpp", variants=["plain"])},
        parts=[dict(name="pathsd", workers={Q: 16, T: 16}, cases={Q: 25000, T: 800000})],
        rule=("cases = PathsD inputs whose coordinates are (k + f)/scale with |k| up to 2^40 and sub-grid fractions f including "
              "exact +-0.5 ties, +-0.49999999 and random values, precision -8..8, all clip types, fill rules, join/end types, "
              "options; nine entry points: ClipperD into paths (with open subjects) and into PolyTreeD, BooleanOp(PathsD), "
              "InflatePaths(PathsD), RectClip(PathsD), RectClipLines(PathsD), MinkowskiSum/Diff(PathD), TrimCollinear(PathD). "
              "Reference model in the harness: scale = 2^(ilogb(10^p)+1) for ClipperD and 10^p elsewhere, x -> llround(x*scale), "
              "delta and arc tolerance multiplied by the scale, the Paths64 API, result divided by the scale. Oracle: same "
              "number of paths and vertices in the same order, llround(result*scale) equals the integer result exactly and "
              "|result - integer/scale| <= 4 ulp; PolyTreeD has the PolyTree64's shape node for node (level, child count, "
              "IsHole). Non-trivial = an input coordinate that is not on the scaled grid and a non-empty result"
              " Routes: BooleanOp is reached through BooleanOp, the named wrappers Intersect/Union/Difference/Xor, or BooleanOp into a PolyTreeD (flattened, against the PolyTree64 of the scaled input); RectClip/RectClipLines through the PathsD or the single-PathD overload"),
        assumptions=["scaled coordinates within +-2^52", "Minkowski PathD overloads probed with decimal places -4..4"],
        technique="property-based testing (rapidcheck): differential against a harness-side scaling model around the integer API",
        level_text="Generated differential search of every PathsD entry point against the integer API on scaled, rounded input. Exploration only.",
        level_note="trusts the 10-line scaling model in prop_C16.cpp and the integer API itself (judged by C01-C09), g++, rapidcheck",
    ),
    "C17": dict(
        bins={"main": dict(tc="asan", src="prop_C17.cpp", variants=["plain"]),
              "mainz": dict(tc="asan", src="prop_C17.cpp", variants=["z"])},
        parts=[
            dict(name="roundtrip", bin="main", workers={Q: 4, T: 4}, cases={Q: 4000, T: 300000}),
            dict(name="forward", bin="main", workers={Q: 5, T: 5}, cases={Q: 4000, T: 300000}),
            dict(name="roundtrip_z", part="roundtrip", bin="mainz", workers={Q: 3, T: 3}, cases={Q: 4000, T: 300000}),
            dict(name="forward_z", part="forward", bin="mainz", workers={Q: 4, T: 4}, cases={Q: 4000, T: 300000}),
        ],
        rule=("built twice (plain and USINGZ, both under ASan+UBSan). (roundtrip) random Paths64/PathsD incl. empty paths, empty "
              "lists and Z values: CreateCPathsFromPathsT / CreateCPathsDFromPathsD / CreateCPathsDFromPaths64 are decoded by a "
              "harness decoder written from the header's layout comment (array[0] must equal the elements consumed, array[1] the "
              "path count, decoded == input minus empty paths); harness-encoded arrays allocated at EXACTLY the stated length "
              "go through ConvertCPathsToPathsT / ConvertCPathsDToPaths64 / ConvertCPathToPathT / "
              "ConvertCPathDToPath64WithScale (identity on non-empty paths; ASan flags any access outside the block); "
              "CreateCPolyTree64/D arrays are walked by the decoder and must reproduce the tree. (forward) all 14 exported "
              "functions with random valid arguments against the corresponding C++ call written in the harness (Clipper64 / "
              "ClipperD with both options, ClipperOffset(miter_limit, arc_tolerance[*scale], false, reverse_solution), "
              "RectClip64/RectClipLines64, MinkowskiSum/Diff): decoded results must be equal incl. Z. Non-trivial = "
              "non-empty data (roundtrip) / a case where flipping a forwarded option changes the C++ result"),
        assumptions=["the Z callbacks of the export layer stay unset", "D variants probed with precision -2..3"],
        technique="property-based testing (rapidcheck) under ASan/UBSan: round-trip against an independent decoder + differential against the C++ API",
        level_text="Generated round-trip and differential search for every exported function in both Z configurations, with exact-length buffers under ASan. Exploration only.",
        level_note="trusts the decoder in cexport.hpp (written from the layout comment), ASan, clang, rapidcheck",
    ),
    "C19": dict(
        bins={"main": dict(tc="gcc", src="prop_C19.cpp", variants=["plain"])},
        parts=[dict(name="mink", workers={Q: 16, T: 16}, cases={Q: 2500, T: 100000})],
        rule=("cases = pattern and path of 1-8 random vertices each (non-convex and self-intersecting included), each operand "
              "drawn until it is in general position by itself (C01's definition at separation 3 + |coord|*2^-40; one-point "
              "operands qualify, closed two-point operands retrace their edge and do not; the judge discards anything else), "
              "4% with an empty operand, |coord| from "
              "50 to 2^39 (sums reach 2^40), closed and open path, MinkowskiSum and MinkowskiDiff. Reference: the "
              "parallelograms a_g+-b_h, a_i+-b_h, a_i+-b_j, a_g+-b_j for every path edge (closing edge only when closed) and "
              "every pattern edge, built in the harness from the definition; one integer sample per face of the arrangement of "
              "all parallelogram edges, farther than 2 units (+ float allowance) from every edge: the result must wind once "
              "around a sample that lies strictly inside some non-degenerate parallelogram (exact __int128 test) and not at all "
              "otherwise; empty operand or no non-degenerate parallelogram => empty result. Non-trivial = overlapping "
              "parallelograms and a non-convex or self-intersecting operand. (The PathD overloads are compared with the "
              "integer ones in C16.)"
              " Routes: 30% of the cases go through the PathD overloads with 0..4 decimal places (operands divided by 10^dp, result multiplied back, same integer model)"),
        assumptions=["a mismatch that disappears when single path vertices are moved by one unit (>= 4 judged moves, at least 2 of them cure it) is the near-touch artefact KF-ENG-a of the final Union",
                     "'in general position' is read as C01 defines it, applied to each operand separately: operands with repeated points, slivers thinner than 3 units or retraced edges (two-point closed patterns) are outside the domain and not judged"],
        technique="property-based testing (rapidcheck): reference construction of the swept parallelograms + exact sampled coverage",
        level_text="Generated search against the definition (union of parallelograms) with exact point-in-parallelogram tests. Exploration only.",
        level_note="trusts oracle.hpp and the parallelogram construction in prop_C19.cpp, g++, rapidcheck",
    ),
    "C15": dict(
        bins={"main": dict(tc="gcc", src="prop_C15.cpp", variants=["plain", "z"], shims=["z"])},
        parts=[
            dict(name="bool_gp", workers={Q: 4, T: 4}, cases={Q: 20000, T: 600000}),
            dict(name="bool_deg", workers={Q: 3, T: 3}, cases={Q: 40000, T: 1200000}),
            dict(name="boolD_gp", workers={Q: 2, T: 2}, cases={Q: 20000, T: 600000}),
            dict(name="bool_tight", workers={Q: 3, T: 3}, cases={Q: 60000, T: 1800000}),
            dict(name="offset", workers={Q: 3, T: 3}, cases={Q: 4000, T: 120000}),
            dict(name="rect", workers={Q: 2, T: 2}, cases={Q: 40000, T: 1200000}),
        ],
        rule=("the plain build and the USINGZ build (namespace-renamed) run in ONE binary on the same generated input with "
              "random Z labels on every input vertex, callbacks none / constant / counter-stamping / hash of the four edge end "
              "points, random DefaultZ: (bool_gp) general-position sets with open subjects, (bool_deg) degenerate and "
              "rectilinear sets, paths and polytree, all clip types / fill rules / options: x,y of closed and open solutions "
              "(and tree levels) identical vertex for vertex; on general-position input additionally every solution vertex "
              "carries an input Z given at its location or the value the (logging) callback assigned there last; (boolD_gp) the "
              "same two clauses for ClipperD with a ZCallbackD at precisions 0..4 (paths and PolyTreeD); (offset) "
              "polygons, polylines, 1-2-point paths x all join/end types x delta, paths and tree: identical x,y; (rect) "
              "RectClip and RectClipLines: identical x,y. Non-trivial = a solution vertex "
              "that is not an input vertex (Z part) / a non-empty result"),
        assumptions=["which of several coincident input Z values is chosen and how often the callback fires are not asserted"],
        technique="property-based testing (rapidcheck): differential between two build configurations in one binary + Z provenance oracle with a logging callback",
        level_text="Generated differential search plain vs USINGZ over every operation family plus a Z-provenance check. Exploration only.",
        level_note="trusts the shim conversions, g++, rapidcheck",
    ),
    "C14": dict(
        bins={"main": dict(tc="tsan", src="prop_C14.cpp", variants=["plain"])},
        parts=[dict(name="workloads", workers={Q: 5, T: 5}, cases={Q: 250, T: 10000})],
        rule=("generated workloads under ThreadSanitizer: 2-8 threads, each with its own list of 3-8 operations (Clipper64 "
              "into paths / polytree, Clipper64 fed from ONE shared read-only ReuseableDataContainer64 built before the "
              "threads start, ClipperD, ClipperOffset into paths / tree, RectClip, RectClipLines, MinkowskiSum/Diff, path "
              "utilities, InflatePaths, ClipperOffset with a (pure) delta callback, the PathsD free functions InflatePaths/RectClip/"
              "RectClipLines/MinkowskiSum/MinkowskiDiff/SimplifyPaths/BooleanOp, ClipperD into PolyTreeD) on its own generated data; threads mostly run the same kinds of operation in the "
              "same order so that the same entry points execute simultaneously. Each workload is run 3 times concurrently from a start barrier, then "
              "sequentially (reference; afterwards, so that it cannot warm lazily initialised state). Oracle: ThreadSanitizer reports no data race "
              "(halt_on_error, exit code 66 is a violation) and every thread's results are bit-identical to the sequential "
              "reference. Non-trivial = two threads executed the same entry point with overlapping time intervals "
              "(measured with per-operation timestamps)"),
        assumptions=["ThreadSanitizer's happens-before analysis: a race is reported when both unsynchronised accesses execute, whatever the interleaving",
                     "the export layer's Z-callback globals are caller-set configuration and are not touched",
                     "a TSan report is accepted on first reproduction out of up to 3 replays (schedules vary)"],
        technique="property-based testing (rapidcheck) of generated concurrent workloads under ThreadSanitizer + differential against a sequential run",
        level_text="Generated workloads over all entry points with shared read-only data, judged by TSan's race detector and by sequential/concurrent equality. Exploration only.",
        level_note="trusts ThreadSanitizer (clang 14), clang, rapidcheck",
        replay_any=True,
    ),
    "C02": dict(
        bins={"main": dict(tc="gcc", src="prop_C02.cpp", variants=["plain"])},
        parts=[
            dict(name="random", workers={Q: 12, T: 6}, cases={Q: 40000, T: 1500000}),
            dict(name="pairs4x4", kind="enum", workers={Q: 4, T: 2}),
            dict(name="pairs5x5", kind="enum", workers={Q: 0, T: 8}),
        ],
        rule=("cases = sets of closed rectilinear walks/rectangles on a random lattice (2..9 lines, steps 1..2^58/G, "
              "random origin), each executed under 4 clip types x 4 fill rules x PreserveCollinear on/off and judged "
              "cell by cell against an exact comparison-only winding model; plus the exhaustive scope of all ordered "
              "pairs of the 200 oriented rectangles of a 4x4 cell grid (thorough tier: also the 450 of a 5x5 grid, 202,500 pairs). Non-trivial = the input contains collinear "
              "overlapping edges, a repeated point, or two vertices at one location; distinct = distinct 64-bit hash "
              "of the canonical case encoding"),
        assumptions=["oracle: per-cell winding by comparisons only, exact __int128 areas", "|coordinates| <= 2^60"],
        technique="property-based testing (rapidcheck) against an exact per-cell winding model + exhaustive small scope",
        level_text=("Generated search: random degenerate rectilinear inputs on lattices of every scale judged cell by cell "
                    "against an exact model under all 32 configurations, plus complete enumeration of all rectangle pairs "
                    "of a 4x4 grid. Exploration, not proof: holds on everything generated."),
        level_note="trusts the ~60-line comparison-only cell-winding oracle, g++, rapidcheck",
    ),
}

# properties without a check in this revision (kept current in MANIFEST.not_applicable)
NOT_YET = {}
