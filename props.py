"""Per-property configuration: binaries, parts, budgets, evidence wording."""

Q, T = "quick", "thorough"

PROPS = {
    "C02": dict(
        bins={"main": dict(tc="gcc", src="prop_C02.cpp", variants=["plain"])},
        parts=[
            dict(name="random", workers={Q: 12, T: 14}, cases={Q: 2500, T: 80000}),
            dict(name="pairs4x4", kind="enum", workers={Q: 4, T: 2}),
        ],
        rule=("cases = sets of closed rectilinear walks/rectangles on a random lattice (2..9 lines, steps 1..2^58/G, "
              "random origin), each executed under 4 clip types x 4 fill rules x PreserveCollinear on/off and judged "
              "cell by cell against an exact comparison-only winding model; plus the exhaustive scope of all ordered "
              "pairs of the 200 oriented rectangles of a 4x4 cell grid. Non-trivial = the input contains collinear "
              "overlapping edges, a repeated point, or two vertices at one location; distinct = distinct 64-bit hash "
              "of the canonical case encoding"),
        assumptions=["oracle: per-cell winding by comparisons only, exact __int128 areas", "|coordinates| <= 2^60"],
        technique="property-based testing (rapidcheck) against an exact per-cell winding model + exhaustive small scope",
        level_text=("Generated search: random degenerate rectilinear inputs on lattices of every scale judged cell by cell "
                    "against an exact model under all 32 configurations, plus complete enumeration of all rectangle pairs "
                    "of a 4x4 grid. Exploration, not proof: holds on everything generated."),
        level_note="trusts the ~60-line comparison-only cell-winding oracle, g++, rapidcheck",
    ),
}

# properties without a check in this revision (kept current in MANIFEST.not_applicable)
NOT_YET = {}
