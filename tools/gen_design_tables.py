#!/usr/bin/env python3
"""Fills the generated parts of DESIGN.md (between BEGIN/END markers) from known_findings.json,
seeded/*/meta.json and selftest/results.json so that the document stays in sync with the machinery."""
import glob, json, os, re
V = os.path.dirname(os.path.dirname(os.path.abspath(__file__)))
kf = json.load(open(os.path.join(V, "known_findings.json")))

def esc(t):
    return t.replace("|", "\\|").replace("\n", " ")

out = []
out.append("Every deviation below was first reproduced against the real code with a concrete input (the reproducers are in the\n"
           "`fix:` commit messages, in `replays/<ID>/` or in the `example` field of `known_findings.json`).\n")
out.append("### 7.1 Genuine defects repaired by `fix:` commits in /repo\n")
out.append("Each is one minimal unguarded commit; the unedited suite passes with all of them; the check that exposed it passes on\n"
           "the repaired tree with no KNOWN-FINDING line and fails again if the fix is reverted (the reverted fixes are part of\n"
           "the mutant set of §8).\n")
out.append("| property | commit | what failed |")
out.append("|---|---|---|")
for line in kf["fixed"]:
    m = re.match(r"fixed: property=(\S+) (\S+) (.*)", line)
    out.append("| %s | `%s` | %s |" % (m.group(1), m.group(2), esc(m.group(3))))
out.append("")
out.append("### 7.2 Known findings (genuine, recorded rather than repaired)\n")
out.append("None of these has a small safe repair: they are inherent to double-precision intersection arithmetic, to the engine's\n"
           "policy for touching paths, to the heuristic PolyTree ownership search, or they would change API behaviour. Each is a\n"
           "*class* with an executable recogniser inside the check (or a call site); anything the recogniser does not explain is\n"
           "reported as VIOLATION. The checks print one `KNOWN-FINDING:` line per entry and count the hits in the evidence.\n")
out.append("| id | property | what fails | recogniser (what is still reported) |")
out.append("|---|---|---|---|")
seen = set()
for e in kf["findings"]:
    key = (e["id"], e["property"])
    if key in seen:
        continue
    seen.add(key)
    out.append("| %s | %s | %s | %s |" % (e["id"], e["property"], esc(e["what"]), esc(e.get("recogniser", ""))))
out.append("")
out.append("Two candidates were examined and *not* listed because they were harness errors (false alarms, corrected in the\n"
           "machinery): attaching one `ReuseableDataContainer64` twice to the same clipper (invalid use; the first fuzz target\n"
           "did it and produced a use-after-free, a null dereference and a hang that disappeared with the corrected target), and\n"
           "several oracle mistakes listed in §5.0 / the harness comments (full discs for round end caps, discs beyond butt ends,\n"
           "a greedy embedding for RamerDouglasPeucker, 'last' instead of 'any' callback value in the Z log, a too strict\n"
           "distance clause for GetSegmentIntersectPt, a Z clause for RectClip that the property does not state).\n")
out.append("A repair of KF-C04-a was prototyped (a fallback search for the innermost containing polygon when a hole has no\n"
           "owner or all candidate owners were rejected). It removes the hole cases but not islands that never had an owner\n"
           "candidate; a complete repair needs a containment search over all top-level polygons, which is quadratic in their\n"
           "number and therefore not a small safe patch. It was not committed.\n")
findings_md = "\n".join(out)

# ---- sensitivity ----
out = []
out.append("### 8.1 Changes seeded by independent sub-agents\n")
out.append("Each sub-agent was given only the text of one property and a scratch git worktree of /repo, and asked for a change\n"
           "that breaks the property, still compiles, passes the unedited suite and needs something specific to manifest, with\n"
           "a demonstration program. Every change kept here was confirmed independently (`tools/confirm_seed.sh`: fresh\n"
           "worktree, demo exits 0 on the clean tree, non-zero on the patched tree, suite passes on the patched tree) and then\n"
           "run against the registered quick check (`tools/run_seed.sh`, seed 1).\n")
metas = []
for d in sorted(glob.glob(os.path.join(V, "seeded", "*"))):
    mp = os.path.join(d, "meta.json")
    if os.path.exists(mp):
        metas.append(json.load(open(mp)))
n_all = len(metas)
n_yes = sum(1 for m in metas if str(m.get("detected_by_check", "")).startswith("yes"))
n_first = sum(1 for m in metas if "issed" in m.get("needs_to_manifest", "") and str(m.get("detected_by_check", "")).startswith("yes"))
out.append("The changes were requested in ten rounds, each with a different steer for where to hide the change: (1-2) free\n"
           "choice within the property; (3) a second, different mechanism; (4) less-travelled entry points, overloads and option\n"
           "combinations; (5) size- or count-dependent behaviour; (6) parameter extremes and exact numeric coincidences;\n"
           "(7) code compiled under one build configuration only; (8) free choice outside the list of ideas already used;\n"
           "(9) shared low-level helpers; (10) adversarial against a capable property-based tester. Three proposals were\n"
           "discarded as duplicates of stored changes (the same edit offered again). Of the %d stored changes, %d are detected\n"
           "by the quick check of their property; %d of those were missed when they arrived and are detected since the check\n"
           "was strengthened (the table says how, and section 5.0 lists the generator classes and routes this produced);\n"
           "the remaining %d are not detected, for the reasons given in the table (outside the property as stated).\n" % (n_all, n_yes, n_first, n_all - n_yes))
out.append("| seeded change | property | what it needs to manifest | detected by the quick check |")
out.append("|---|---|---|---|")
for d in sorted(glob.glob(os.path.join(V, "seeded", "*"))):
    mp = os.path.join(d, "meta.json")
    if not os.path.exists(mp):
        continue
    m = json.load(open(mp))
    out.append("| `%s` | %s | %s | %s |" % (os.path.basename(d), m["property"], esc(m["needs_to_manifest"]), m["detected_by_check"]))
out.append("")
rp = os.path.join(V, "selftest", "results.json")
if os.path.exists(rp):
    res = json.load(open(rp))
    own = [r for r in res if not r["mutant"].startswith("seeded/") and not r.get("noop")]
    det = sum(1 for r in own if r["detected"])
    out.append("### 8.2 Own mutants (`selftest/mutants/`, run by `selftest/run_all.py`)\n")
    out.append("%d of %d own mutants are detected by the quick tier (seed 1). The reverted `fix:` commits are among them and are\n"
               "all detected. The misses were examined one by one:\n" % (det, len(own)))
    out.append("| mutant | property | quick check | note |")
    out.append("|---|---|---|---|")
    notes = {
        "C03_nofixself": "FixSelfIntersects is not reached from the generated domains (its 4-vertex pattern needs sub-grid rounding collisions); equivalent on everything judged",
        "C03_nodupcheck": "the duplicate test in CleanCollinear is redundant with BuildPath64's duplicate skip",
        "C04_setowner": "compensated by RecursiveCheckOwners' containment walk",
        "C06_miterlim": "squares more corners than asked; still between the round results for |delta| and |delta| x limit, i.e. inside what C06 states",
        "C08_contains": "a path reaching one unit beyond a side is returned unchanged: inside the stated one-unit tolerance",
        "C13_locminsort": "a non-strict comparator that happens to give the same order",
        "C13_noclosingskip": "the closing duplicate then forms a zero-length edge, which the sweep tolerates",
        "C18_crosssign": "the changed comparison is only reached with equal signs, where the earlier branch already returned",
        "C02": "ordering of horizontal joins only changes how touching polygons are merged, not the covered cells",
    }
    for r in own:
        nm = os.path.splitext(r["mutant"])[0]
        note = ""
        if not r["detected"]:
            note = notes.get(nm, notes.get(nm.split("_")[0], "equivalent on the judged domain (see mutant file)"))
        out.append("| `%s` | %s | %s | %s |" % (r["mutant"], r["property"], "detected (%.0f s)" % r["seconds"] if r["detected"] else "missed", esc(note)))
    out.append("")
sens_md = "\n".join(out)

p = os.path.join(V, "DESIGN.md")
s = open(p).read()
s = re.sub(r"<!-- BEGIN:findings -->.*?<!-- END:findings -->", "<!-- BEGIN:findings -->\n" + findings_md.replace("\\", "\\\\") + "\n<!-- END:findings -->", s, flags=re.S)
s = re.sub(r"<!-- BEGIN:sensitivity -->.*?<!-- END:sensitivity -->", "<!-- BEGIN:sensitivity -->\n" + sens_md.replace("\\", "\\\\") + "\n<!-- END:sensitivity -->", s, flags=re.S)
open(p, "w").write(s)
print("DESIGN.md tables regenerated")
