#!/bin/bash
# process_seed.sh <wtdir-name> <name> <PROP> [demo g++ flags]  — confirm a sub-agent's change, then run the quick check on it
WT=$1; NAME=$2; P=$3; shift 3
/verif/tools/confirm_seed.sh $WT $NAME "$@" 2>&1 | tail -2
/verif/tools/run_seed.sh $NAME $P quick > /tmp/seedrun_$NAME.log 2>&1
echo "$NAME: $(grep -c '^VIOLATION' /tmp/seedrun_$NAME.log) violation lines; $(grep -v '^KNOWN' /tmp/seedrun_$NAME.log | grep -v '^VIOLATION' | tail -2 | tr '\n' ' ' | cut -c1-200)"
grep '^VIOLATION' /tmp/seedrun_$NAME.log | head -2 | cut -c1-250
