#!/usr/bin/env python3
"""keep_replay.py <found.json> <PROP> <name> <expect>   — commit a found case as a regression/known-finding replay.
expect: pass | known:<KF-id>"""
import json, sys, os
src, prop, name, expect = sys.argv[1:5]
d = json.load(open(src))
d["expect"] = expect
dst = os.path.join(os.path.dirname(os.path.dirname(os.path.abspath(__file__))), "replays", prop, name + ".json")
os.makedirs(os.path.dirname(dst), exist_ok=True)
json.dump(d, open(dst, "w"), indent=None)
print(dst)
