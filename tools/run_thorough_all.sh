#!/bin/bash
# development helper: run every thorough check once on the unchanged tree and summarise
cd "$(dirname "$0")/.."
for p in ${@:-C01 C02 C03 C04 C05 C06 C07 C08 C09 C10 C11 C12 C13 C14 C15 C16 C17 C18 C19 C20}; do
  s=$(date +%s)
  python3 check.py $p thorough > /tmp/thorough_$p.log 2>&1; rc=$?
  echo "$p rc=$rc $(( $(date +%s) - s ))s  $(grep -c VIOLATION /tmp/thorough_$p.log) violations; $(grep -v KNOWN /tmp/thorough_$p.log | tail -1 | cut -c1-200)"
done
