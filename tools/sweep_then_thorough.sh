#!/bin/bash
# development helper: seed sweep of all quick checks, then every thorough check once (unchanged tree)
cd "$(dirname "$0")/.."
tools/sweep.sh "${1:-401 402}" 
tools/run_thorough_all.sh C01 C05 C19 C20 C17 C03 C04 C13 C15 C06 C07 C08 C09 C02 C12 C16 C18 C11 C14 C10
