#!/bin/bash
# confirm_seed.sh <PROP> <name> [extra g++ flags for the demo]
# Confirms a sub-agent's seeded change independently in a scratch worktree and stores it under /verif/seeded/<name>/.
set -u
P=$1; NAME=$2; shift 2; FLAGS="$*"
SRC=/tmp/wt/$P/seed
DST=/verif/seeded/$NAME
W=/tmp/cs/$NAME
rm -rf $W; mkdir -p /tmp/cs; git -C /repo worktree add -q --detach $W HEAD || exit 9
mkdir -p $DST; cp $SRC/patch.diff $SRC/demo.cpp $SRC/notes.md $DST/ 2>/dev/null
for f in $SRC/*; do case "$f" in *.diff|*/demo.cpp|*/notes.md|*/demo) ;; *) [ -f "$f" ] && [ $(stat -c %s "$f") -lt 200000 ] && cp "$f" $DST/ ;; esac; done
cd $W
build_demo() { g++ -std=c++17 -O1 $FLAGS -I$W/CPP/Clipper2Lib/include $DST/demo.cpp $W/CPP/Clipper2Lib/src/*.cpp -o $W/demo_$1 2>$W/demo_$1.log; }
build_demo clean || { echo "DEMO BUILD FAILED (clean)"; tail -5 $W/demo_clean.log; }
timeout 300 $W/demo_clean >/dev/null 2>&1; RC_CLEAN=$?
git apply $DST/patch.diff || { echo "PATCH DOES NOT APPLY"; exit 8; }
build_demo mut || { echo "DEMO BUILD FAILED (mutated)"; tail -5 $W/demo_mut.log; }
timeout 300 $W/demo_mut >/dev/null 2>&1; RC_MUT=$?
cmake -G Ninja -S $W/CPP -B $W/_build -DCMAKE_BUILD_TYPE=RelWithDebInfo -DUSE_EXTERNAL_GTEST=ON -DCLIPPER2_EXAMPLES=OFF -DCLIPPER2_UTILS=OFF >/dev/null 2>&1
cmake --build $W/_build >$W/build.log 2>&1; RC_BUILD=$?
TESTS=$(ctest --test-dir $W/_build -j8 2>&1 | grep "tests passed" )
echo "demo clean rc=$RC_CLEAN  demo mutated rc=$RC_MUT  build rc=$RC_BUILD  tests: $TESTS"
echo "{\"demo_clean_rc\": $RC_CLEAN, \"demo_mutated_rc\": $RC_MUT, \"build_rc\": $RC_BUILD, \"tests\": \"$TESTS\", \"demo_flags\": \"$FLAGS\"}" > $DST/confirm.json
cd /; git -C /repo worktree remove --force $W
