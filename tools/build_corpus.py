#!/usr/bin/env python3
"""Development tool: (re)builds the committed seed corpora under /verif/corpus/<target>/ by fuzzing each plain
target for a while from an empty corpus and merging the result down to a coverage-minimal set of small inputs."""
import os, shutil, subprocess, sys, tempfile
V = os.path.dirname(os.path.dirname(os.path.abspath(__file__)))
sys.path.insert(0, V)
import build
from props import PROPS
from check import sanitizer_env
secs = int(sys.argv[1]) if len(sys.argv) > 1 else 240
keep = int(sys.argv[2]) if len(sys.argv) > 2 else 300
env = sanitizer_env()
for name in ["fuzz_bool", "fuzz_offset", "fuzz_rect", "fuzz_misc", "fuzz_export"]:
    b = PROPS["C10"]["bins"][name]
    binary = build.build_bin("C10-" + name, b["tc"], b["src"], tuple(b["variants"]), (), (), tuple(b["flags"]), tuple(b["libs"]))
    work = tempfile.mkdtemp(prefix="corpus-", dir="/var/tmp")
    raw, art = os.path.join(work, "raw"), os.path.join(work, "art")
    os.makedirs(raw); os.makedirs(art)
    subprocess.run([binary, raw, "-fork=3", "-ignore_crashes=1", "-ignore_timeouts=1", "-ignore_ooms=1", "-max_total_time=%d" % secs,
                    "-max_len=300", "-timeout=25", "-artifact_prefix=%s/" % art], env=env, stdout=subprocess.DEVNULL, stderr=subprocess.DEVNULL, cwd=work)
    merged = os.path.join(work, "merged")
    os.makedirs(merged)
    subprocess.run([binary, "-merge=1", merged, raw, "-max_len=300"], env=env, stdout=subprocess.DEVNULL, stderr=subprocess.DEVNULL)
    files = sorted(os.listdir(merged), key=lambda f: os.path.getsize(os.path.join(merged, f)))
    dest = os.path.join(V, "corpus", name)
    shutil.rmtree(dest, ignore_errors=True)
    os.makedirs(dest)
    # coverage-minimal set is ordered by size; keep the smallest `keep` (they carry most features per byte)
    for f in files[:keep]:
        shutil.copy(os.path.join(merged, f), dest)
    print(name, "raw", len(os.listdir(raw)), "merged", len(files), "kept", min(keep, len(files)), "artifacts", len(os.listdir(art)))
    shutil.rmtree(work, ignore_errors=True)
