#!/usr/bin/env python3
"""seed_meta.py <name> <PROP> <detected: yes|no|thorough> <needs...>  — writes seeded/<name>/meta.json"""
import json, sys, os
name, prop, det = sys.argv[1:4]
needs = " ".join(sys.argv[4:])
d = "/verif/seeded/" + name
conf = json.load(open(d + "/confirm.json")) if os.path.exists(d + "/confirm.json") else {}
meta = dict(property=prop, origin="independent sub-agent given only the property text and a scratch worktree",
            needs_to_manifest=needs,
            confirmed=dict(what_i_ran="tools/confirm_seed.sh: fresh worktree of /repo; demo built and run on the clean tree, patch applied, demo rebuilt and run, cmake+ctest of the unedited suite on the patched tree; then tools/run_seed.sh (the registered quick check against a patched copy)",
                           **conf),
            detected_by_check=det)
json.dump(meta, open(d + "/meta.json", "w"), indent=1)
print(json.dumps(meta)[:300])
