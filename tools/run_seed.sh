#!/bin/bash
# run_seed.sh <name> <PROP> [tier]  — run a registered check against a stored seeded change (on a scratch copy of /repo)
NAME=$1; P=$2; T=${3:-quick}
exec /verif/selftest/mutrun.sh /verif/seeded/$NAME/patch.diff $P $T
