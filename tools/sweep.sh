#!/bin/bash
# development helper: seed sweep of every quick check on the unchanged tree.  usage: sweep.sh "<seeds>" [props...]
cd "$(dirname "$0")/.."
SEEDS=${1:-"11 12 13"}; shift
for p in ${@:-C01 C02 C03 C04 C05 C06 C07 C08 C09 C10 C11 C12 C13 C14 C15 C16 C17 C18 C19 C20}; do
  for s in $SEEDS; do
    out=$(VERIF_SEED=$s VERIF_OUT=/tmp/sweep_out python3 check.py $p quick 2>&1); rc=$?
    echo "$p seed=$s rc=$rc $(echo "$out" | grep -c '^VIOLATION') violations; $(echo "$out" | grep -v KNOWN | grep -v '^note' | tail -1 | cut -c1-160)"
    echo "$out" | grep '^VIOLATION' | head -3
  done
done
